#!/usr/bin/env python3
"""Like seed_eval.py, but never touches /repo: the patch is applied to a scratch worktree of /repo's
HEAD and the checks run from a scratch copy of /verif whose harness points at that worktree.  For use
while a sweep is running against /repo itself.  Both scratch directories are removed at the end.
usage: seed_eval_scratch.py <seed dir name> <src dir> <prop> [<prop> ...] [--tier thorough]"""
import json, os, shutil, subprocess, sys, time
args = sys.argv[1:]
tier = "quick"
if "--tier" in args:
    i = args.index("--tier"); tier = args[i + 1]; del args[i:i + 2]
store = "/verif/seeded"
if "--store" in args:                      # e.g. --store /verif/benign for behaviour-preserving patches
    i = args.index("--store"); store = args[i + 1]; del args[i:i + 2]
patchname = "patch.diff"
if "--patch" in args:
    i = args.index("--patch"); patchname = args[i + 1]; del args[i:i + 2]
name, src, props = args[0], args[1], args[2:]
dst = os.path.join(store, name)
os.makedirs(dst, exist_ok=True)
for f in (patchname, "demo.rs", "notes.md"):
    if os.path.exists(os.path.join(src, f)) and os.path.abspath(src) != os.path.abspath(dst):
        shutil.copy(os.path.join(src, f), os.path.join(dst, "patch.diff" if f == patchname else f))
tag = "%s_%d" % (name, os.getpid())
wt, vc = "/tmp/evwt_" + tag, "/tmp/evverif_" + tag
results = {}
try:
    subprocess.run(["git", "-C", "/repo", "worktree", "add", "-q", "--detach", wt, "HEAD"], check=True)
    subprocess.run(["git", "-C", wt, "apply", os.path.join(dst, "patch.diff")], check=True)
    subprocess.run(["rsync", "-a", "--exclude", "/build", "--exclude", "/replays", "--exclude", "/.git",
                    "--exclude", "/evidence", "/verif/", vc + "/"], check=True)
    ct = os.path.join(vc, "harness/Cargo.toml")
    s = open(ct).read(); assert "/repo/ffuzzy" in s
    open(ct, "w").write(s.replace("/repo/ffuzzy", wt + "/ffuzzy"))
    for p in props:
        t0 = time.time()
        r = subprocess.run(["nice", "-n", "10", "./check", p, "--tier", tier], cwd=vc, capture_output=True, text=True)
        viol = [l for l in r.stdout.splitlines() if l.startswith("VIOLATION")]
        results[p] = {"exit": r.returncode, "violations": len(viol), "first": viol[:1], "wall_s": round(time.time() - t0, 1),
                      "detail": [l for l in r.stderr.splitlines() if l.strip().startswith("->")][:1]}
        print(p, results[p]["exit"], len(viol), results[p]["wall_s"], flush=True)
        if r.returncode not in (0, 1):
            print(r.stderr[-1500:])
finally:
    subprocess.run(["git", "-C", "/repo", "worktree", "remove", "--force", wt])
    subprocess.run(["git", "-C", "/repo", "worktree", "prune"])
    shutil.rmtree(vc, ignore_errors=True)
meta_p = os.path.join(dst, "meta.json")
meta = json.load(open(meta_p)) if os.path.exists(meta_p) else {}
meta.setdefault("checks_run", {}).update({"%s/%s" % (p, tier): results[p] for p in results})
json.dump(meta, open(meta_p, "w"), indent=1)
