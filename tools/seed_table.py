#!/usr/bin/env python3
"""Regenerate the table of DESIGN.md section 12 from seeded/*/meta.json (prints markdown)."""
import json, os, glob
rows = []
def key(n):
    r = 1 if not n.startswith("R") else int(n[1])
    return (r, n)
for d in sorted(glob.glob("/verif/seeded/*"), key=lambda p: key(os.path.basename(p))):
    n = os.path.basename(d)
    m = json.load(open(os.path.join(d, "meta.json")))
    cr = m.get("checks_run", {})
    caught = sorted(k for k, v in cr.items() if v["exit"] == 1)
    quiet = sorted(k for k, v in cr.items() if v["exit"] == 0)
    other = sorted("%s (exit %s)" % (k, v["exit"]) for k, v in cr.items() if v["exit"] not in (0, 1))
    esc = lambda s: str(s).replace("|", "\\|")
    rows.append("| `%s` | %s | %s | %s | %s | %s |" % (n, esc(m.get("breaks", "")), esc(m.get("change", "")), esc(m.get("needs_to_manifest", "")),
                                                   ", ".join(caught + other), ", ".join(quiet)))
print("| seed | breaks | change | needs | caught by | related checks that stayed quiet |")
print("|---|---|---|---|---|---|")
print("\n".join(rows))
