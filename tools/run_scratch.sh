#!/bin/bash
# Run ./check from a scratch copy of the CURRENT /verif working tree (harness still built against /repo),
# so that /verif can be edited while a long check runs.  usage: run_scratch.sh <tag> <check args...>
# Output: /tmp/vs_<tag>.out ; the scratch copy is removed afterwards.
tag=$1; shift
d=/tmp/vs_$tag
rm -rf $d; mkdir -p $d
rsync -a --exclude /build --exclude /replays --exclude /.git --exclude /evidence /verif/ $d/
( cd $d && /usr/bin/time -f "WALL %es" nice -n 5 ./check "$@" ) > /tmp/vs_$tag.out 2>&1
echo "exit $?" >> /tmp/vs_$tag.out
rm -rf $d
