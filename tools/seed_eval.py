#!/usr/bin/env python3
"""Run registered checks against a seeded change: apply the patch to /repo, run the quick (or given
tier) checks of the listed properties, undo the patch straight afterwards, record the outcome in
/verif/seeded/<id>/meta.json.   usage: seed_eval.py <seed dir name> <src dir> <prop> [<prop> ...] [--tier thorough]"""
import json, os, shutil, subprocess, sys, time
args = sys.argv[1:]
tier = "quick"
if "--tier" in args:
    i = args.index("--tier"); tier = args[i + 1]; del args[i:i + 2]
name, src, props = args[0], args[1], args[2:]
dst = os.path.join("/verif/seeded", name)
os.makedirs(dst, exist_ok=True)
for f in ("patch.diff", "demo.rs", "notes.md"):
    if os.path.exists(os.path.join(src, f)):
        shutil.copy(os.path.join(src, f), dst)
assert subprocess.run(["git", "-C", "/repo", "status", "--porcelain"], capture_output=True, text=True).stdout.strip() == "", "/repo not clean"
subprocess.run(["git", "-C", "/repo", "apply", os.path.join(dst, "patch.diff")], check=True)
results = {}
try:
    for p in props:
        t0 = time.time()
        r = subprocess.run(["./check", p, "--tier", tier], cwd="/verif", capture_output=True, text=True)
        viol = [l for l in r.stdout.splitlines() if l.startswith("VIOLATION")]
        results[p] = {"exit": r.returncode, "violations": len(viol), "first": viol[:1], "wall_s": round(time.time() - t0, 1),
                      "detail": [l for l in r.stderr.splitlines() if l.strip().startswith("->")][:1]}
        print(p, results[p]["exit"], len(viol), results[p]["wall_s"], flush=True)
finally:
    subprocess.run(["git", "-C", "/repo", "checkout", "--", "."], check=True)
    shutil.rmtree("/verif/replays", ignore_errors=True)
meta_p = os.path.join(dst, "meta.json")
meta = json.load(open(meta_p)) if os.path.exists(meta_p) else {}
meta.setdefault("checks_run", {}).update({"%s/%s" % (p, tier): results[p] for p in results})
json.dump(meta, open(meta_p, "w"), indent=1)
