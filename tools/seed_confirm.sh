#!/bin/bash
# Confirm a sub-agent's seeded change in its scratch worktree:
#   suite passes with it, demo fails with it, demo passes without it.
# usage: seed_confirm.sh <id> <worktree dir> <seed dir> [extra cargo test args for the demo]
id=$1; wt=$2; sd=$3; shift 3
log=$sd/confirm.log
: > $log
cd $wt || exit 2
git checkout -q -- . ; rm -rf ffuzzy/tests
git apply --check $sd/patch.diff || { echo "patch does not apply" | tee -a $log; exit 1; }
git apply $sd/patch.diff
echo "== suite with change" >> $log
(cargo test --workspace --offline 2>&1 | grep -E "^test result|FAILED|failed" ) >> $log 2>&1
suite_ok=$(grep -c "test result: ok" $log)
suite_bad=$(grep -c "FAILED\|failed;" $log | head -1)
mkdir -p ffuzzy/tests && cp $sd/demo.rs ffuzzy/tests/demo.rs
echo "== demo with change" >> $log
(cd ffuzzy && cargo test --offline --test demo "$@" 2>&1 | grep -E "^test result|panicked|FAILED" | head -8) >> $log 2>&1
with=$(sed -n '/== demo with change/,$p' $log | grep -c "test result: ok")
git checkout -q -- ffuzzy/src
echo "== demo without change" >> $log
(cd ffuzzy && cargo test --offline --test demo "$@" 2>&1 | grep -E "^test result|panicked|FAILED" | head -8) >> $log 2>&1
without=$(sed -n '/== demo without change/,$p' $log | grep -c "test result: ok")
rm -rf ffuzzy/tests; git checkout -q -- .
echo "RESULT $id suite_ok_lines=$suite_ok demo_with_change_ok=$with demo_without_change_ok=$without" | tee -a $log
