#!/usr/bin/env python3
"""Regenerates MANIFEST.json from the table below (single source of truth for the interface)."""
import json
CLAIMED = {
 "C01": ("TLA+ L0/L1/L2 refinement by exhaustive TLC at scaled constants + trace validation of real Generator runs against L1 at real constants", "5 C01"),
 "C03": ("exhaustive TLC over all chunkings/update forms at scaled constants + trace validation of real call histories, incl. histories TLC generates from GenGenerator.tla replayed on the code", "5 C03"),
 "C12": ("exhaustive TLC with size hint / reset (POISON semantics) at scaled constants + trace validation of histories with declarations and resets, incl. histories TLC generates from GenGenerator.tla (declarations aimed at the abstract state) replayed on the code", "5 C12"),
 "C13": ("TLC lemma ZerosState at real constants + trace validation of hook-positioned generators at every block size border up to 192 GiB", "5 C13"),

 "C02": ("declarative fuzzy_compare in TLA+ (Compare.tla); laws + bit-parallel kernels model-checked on complete small domains; trace validation of every comparison entry point on recorded pairs", "5 C02"),
 "C08": ("exhaustive TLC: Hyyro recurrence (with column invariant) = textbook LCS DP for all string pairs up to the word width; trace validation of real edit_distance calls incl. exhaustive small alphabets", "5 C08"),
 "C09": ("exhaustive TLC: backward scan machine = 'share WIN consecutive symbols' for all pairs; trace validation with a 7-gram planted at every offset pair", "5 C09"),
 "C10": ("score / candidate / window laws as TLC-checked theorems on complete small domains; trace validation of scores, candidates and windows on recorded pairs with the laws re-checked on recorded values", "5 C10"),
 "C17": ("exhaustive TLC over all re-initialisation histories of a scaled position array; trace validation of real init_from/From/clear histories incl. all 64 masks, and of behaviours TLC generates from GenTarget.tla replayed on a real target / position array", "5 C17"),
 "C20": ("complete finite domains dumped from the implementation and judged row by row by TLC against the TLA+ definitions", "5 C20"),

 "C04": ("declarative grammar in TLA+ (Text.tla Parse) as oracle; TLC round-trip lemmas; trace validation of all six parsers on exhaustive short texts, structured capacity-border texts and mutations", "5 C04"),
 "C05": ("Format/LenInStr/Parse in TLA+; TLC round-trip lemma on a complete small domain; trace validation of every formatter and buffer length, and text->object->text on accepted texts", "5 C05"),
 "C06": ("declarative Normalize in TLA+; exhaustive TLC agreement of the implementation-shaped run collapsing routes (MCDual); trace validation of 16 normalisation routes on systematic run layouts", "5 C06"),
 "C07": ("RLE encoding spec (Dual.tla): exhaustive TLC that both encoder routes are canonical, valid, lossless and injective on the scaled domain; trace validation of 7 construction routes per raw hash", "5 C07"),
 "C11": ("abstract slot machine in TLA+ (TraceObj EvOp/EvCtor): trace validation of object histories with dirty destinations and of constructor contracts, representation observed by is_valid/full_eq/Debug after every step; both directions: driver-invented histories and behaviours TLC generates from GenObj.tla replayed on real objects", "5 C11"),
 "C15": ("abstract slot machine in TLA+: every recorded conversion chain must leave the value the direct conversion gives; narrowing failure leaves the destination unchanged; both directions (GenObj.tla behaviours replayed on real objects)", "5 C15"),
 "C16": ("documented order in TLA+ (Order.tla); exhaustive TLC that it is a strict total order and equals the implementation's padded-array comparison; trace validation of ==/cmp/Hash/sort on a complete small domain and dual families", "5 C16"),

 "C18": ("reader loop as a TLA+ machine model-checked against a declarative outcome (all short-read / fault / EOF behaviours, scaled buffer); trace validation of hash_stream on scripted readers and hash_file on real files, hashes judged by L1", "5 C18"),
 "C19": ("rolling hash definition vs incremental machine and limb arithmetic by exhaustive TLC at scaled word size; trace validation of every prefix at real constants; complete 64x256 FNV table judged by TLC", "5 C19"),

 "C14": ("one harness binary per build configuration (7 feature sets x debug assertions) runs the same seeded scenarios; every trace is validated by TLC against the one TLA+ specification (STRICT = TRUE for strict-parser) and the transcripts are compared event by event", "5 C14"),
}
LEVEL_TEXT = "model_checking: TLC explores the scaled design exhaustively (every input, history and size up to the scaled limit) and validates every recorded step of real executions against the same specification at real constants; results at real constants cover the executions explored, not all inputs"
NOTE = "trusted: SANY/TLC 1.8.0 + CommunityModules, my transcription of the property into TLA+ (cross-checked by L1=L0, L2 refines L1), the harness recorders (serialisation only), rustc/cargo"
props = [json.loads(l) for l in open("/verif/properties.jsonl")]
checks = []
na = []
for p in props:
    pid = p["id"]
    if pid in CLAIMED:
        tech, ref = CLAIMED[pid]
        checks.append({
            "property_id": pid,
            "quick_cmd": "./check %s --tier quick" % pid,
            "thorough_cmd": "./check %s --tier thorough" % pid,
            "evidence_file": "/verif/evidence/%s.json" % pid,
            "replay_cmd_template": "./check %s --replay {path}" % pid,
            "engine": "tla-tlc",
            "level_claimed": {"category": "model_checking", "text": LEVEL_TEXT, "design_ref": "DESIGN.md section " + ref},
            "level_note": NOTE,
            "technique": tech,
        })
    else:
        na.append({"property_id": pid, "reason": "not yet built in this round (planned: DESIGN.md section 5); no check is claimed"})
m = {
 "version": 1,
 "setup_cmd": "./check setup",
 "hooks": {"guard": "a4lg_ffuzzy_verif", "enable": "RUSTFLAGS='--cfg a4lg_ffuzzy_verif' (set in /verif/harness/.cargo/config.toml)",
           "baseline_off_cmd": "cd /repo && cargo test --workspace --no-fail-fast --offline",
           "source_commits": ["071aecc3288c6020db2ee03565763f7ba8d76b1e"], "add_only": True},
 "engines": [{"name": "tla-tlc", "path": "/verif/spec", "serves_properties": sorted(CLAIMED), "kind_free_text": "explicit TLA+ specification; TLC exhaustive model checking at scaled constants; TLC trace validation of recorded executions of the real code at real constants"},
             {"name": "harness", "path": "/verif/harness", "serves_properties": sorted(CLAIMED), "kind_free_text": "Rust crate (path dependency on /repo/ffuzzy, rebuilt by every check): drivers + recorders, no oracle logic"}],
 "checks": checks,
 "not_applicable": na,
 "notes": "Exit 0 held / 1 VIOLATION (observation of the real code rejected by the specification) / 2 tool error. See DESIGN.md.",
}
json.dump(m, open("/verif/MANIFEST.json", "w"), indent=1)
print("claimed", len(checks), "na", len(na))
