"""Shared machinery of /verif/check: building the harness from /repo's working tree,
running TLC (model checking, trace validation), evidence and verdicts.

Exit codes: 0 = property held on everything explored; 1 = VIOLATION (an observation
of the real code the specification rejects); 2 = tool error / timeout / vacuity guard /
a scaled model-checking run failing (MC never reads /repo, so that is a specification
inconsistency, not a verdict about the code)."""
import hashlib, json, os, re, shutil, subprocess, sys, time, concurrent.futures as cf

VERIF = os.path.dirname(os.path.abspath(__file__))
SPEC = os.path.join(VERIF, "spec")
BUILD = os.path.join(VERIF, "build")
HARNESS = os.path.join(VERIF, "harness")
REPLAYS = os.path.join(VERIF, "replays")
EVIDENCE = os.path.join(VERIF, "evidence")
KNOWN = os.path.join(VERIF, "known_findings.txt")
NCPU = os.cpu_count() or 4
TV_PAR = max(2, min(14, NCPU - 2))
MC_WORKERS = max(2, min(12, NCPU - 4))


class ToolError(Exception):
    pass


class LibraryPanic(Exception):
    """the library under test panicked in a call no driver guards: data, reported as a violation"""
    def __init__(self, where, args):
        Exception.__init__(self, where)
        self.where = where
        self.args_ = args


def log(*a):
    print(*a, file=sys.stderr, flush=True)


def seed():
    try:
        return int(os.environ.get("VERIF_SEED", "1"))
    except ValueError:
        return 1


# ---------------------------------------------------------------- harness build
_built = {}


def build_harness(features=None, profile="release", nodefault=False):
    """cargo build of the harness against /repo's CURRENT working tree (path dependency).
    Returns the path of the binary.  One target dir per configuration."""
    key = (tuple(sorted(features or [])), profile, nodefault)
    if key in _built:
        return _built[key]
    name = "default" if not features and not nodefault else ("nd_" if nodefault else "") + "_".join(sorted(features or [])).replace("-", "")
    tdir = os.path.join(BUILD, "target_" + name) if name != "default" else os.path.join(BUILD, "target")
    cmd = ["cargo", "build", "--offline", "--target-dir", tdir]
    if profile == "release":
        cmd.append("--release")
    if nodefault:
        cmd.append("--no-default-features")
    if features:
        cmd += ["--features", ",".join(features)]
    env = dict(os.environ, CARGO_NET_OFFLINE="true")
    t0 = time.time()
    p = subprocess.run(cmd, cwd=HARNESS, env=env, stdout=subprocess.PIPE, stderr=subprocess.STDOUT, text=True)
    if p.returncode != 0:
        log(p.stdout[-6000:])
        raise ToolError("harness build failed (%s)" % " ".join(cmd))
    binp = os.path.join(tdir, "release" if profile == "release" else "debug", "verif-harness")
    log("[build] %s %s in %.1fs" % (name, profile, time.time() - t0))
    _built[key] = binp
    return binp


def run_harness(binp, args, timeout=1800, env=None):
    e = dict(os.environ)
    e["RUST_BACKTRACE"] = "0"
    if env:
        e.update(env)
    p = subprocess.run([binp] + args, stdout=subprocess.PIPE, stderr=subprocess.PIPE, text=True, timeout=timeout, env=e)
    if p.returncode == 4:
        where = ""
        for line in p.stdout.splitlines():
            if line.startswith("UNCAUGHT-PANIC "):
                where = line[len("UNCAUGHT-PANIC "):].strip()
        if "ffuzzy" in where and "/verif/" not in where and "harness/src" not in where:
            raise LibraryPanic(where, list(args))
        raise ToolError("harness %s panicked at %s (not in the library under test)" % (args[:2], where))
    if p.returncode != 0:
        log(p.stderr[-4000:])
        raise ToolError("harness %s exited %d" % (args[:2], p.returncode))
    stats = {}
    for line in p.stdout.splitlines():
        if line.startswith("STATS "):
            try:
                stats.update(json.loads(line[6:]))
            except Exception:
                pass
    return stats


def fresh_dir(name):
    d = os.path.join(BUILD, name)
    shutil.rmtree(d, ignore_errors=True)
    os.makedirs(d, exist_ok=True)
    return d


# ---------------------------------------------------------------- TLC
def _tlc_env(xmx, extra=""):
    e = dict(os.environ)
    e["JAVA_TOOL_OPTIONS"] = ("-Xss1g -Xmx%s %s" % (xmx, extra)).strip()
    return e


_RE_STATES = re.compile(r"^(\d+) states generated, (\d+) distinct states found, (\d+) states left")
_RE_COV = re.compile(r"^<(\w+) line \d+, col \d+ to line \d+, col \d+ of module (\w+)(?: \([\d ]+\))?>: (\d+):(\d+)")


def run_mc(name, module, cfg, workers=None, timeout=1500, xmx="10g", simulate=None, coverage=True, required_actions=None, keep_output=False):
    """Exhaustive (or -simulate) TLC run of a scaled model.  Any failure is a ToolError."""
    md = fresh_dir("tlc/mc_%s_%d" % (name, os.getpid()))        # per process: checks may run side by side
    cmd = ["tlc", "-workers", str(workers or MC_WORKERS), "-metadir", md, "-cleanup", "-noGenerateSpecTE"]
    if coverage and not simulate and (required_actions or os.environ.get("VERIF_COVERAGE")):
        cmd += ["-coverage", "1"]
    if simulate:
        cmd += ["-simulate"] + simulate.split() + ["-seed", str(seed())]
    cmd += ["-config", os.path.join(SPEC, cfg), os.path.join(SPEC, module)]
    t0 = time.time()
    try:
        p = subprocess.run(cmd, cwd=md, env=_tlc_env(xmx), stdout=subprocess.PIPE, stderr=subprocess.STDOUT, text=True, timeout=timeout)
    except subprocess.TimeoutExpired:
        raise ToolError("MC %s timed out after %ds" % (name, timeout))
    out = p.stdout
    wall = time.time() - t0
    res = {"name": name, "module": module, "cfg": cfg, "wall_s": round(wall, 1), "generated": 0, "distinct": 0, "actions": {}}
    for line in out.splitlines():
        m = _RE_STATES.match(line)
        if m:
            res["generated"], res["distinct"] = int(m.group(1)), int(m.group(2))
        m = re.match(r"^The number of states generated: (\d+)", line)
        if m and simulate:
            res["generated"] = int(m.group(1))
            res["distinct"] = int(m.group(1))      # simulation mode: states visited along random behaviours
        m = _RE_COV.match(line)
        if m:
            res["actions"][m.group(1)] = max(res["actions"].get(m.group(1), 0), int(m.group(4)))
    ok = ("Model checking completed. No error has been found." in out) or (simulate and p.returncode == 0 and "Error" not in out and "violated" not in out)
    shutil.rmtree(md, ignore_errors=True)
    if not ok:
        log(out[-5000:])
        raise ToolError("MC %s (%s/%s) did not complete cleanly: the specification is inconsistent with itself" % (name, module, cfg))
    if required_actions:
        for a in required_actions:
            if res["actions"].get(a, 0) == 0:
                raise ToolError("vacuity guard: action %s never taken in MC %s" % (a, name))
    log("[mc] %s: %d distinct / %d generated states in %.1fs" % (name, res["distinct"], res["generated"], wall))
    if keep_output:
        res = dict(res, output=out)
    return res


def _run_tv_one(args):
    idx, module, cfg, path, timeout, extra_env = args
    md = os.path.join(BUILD, "tlc", "tv_%s_%d_%d" % (os.path.basename(path), os.getpid(), idx))
    shutil.rmtree(md, ignore_errors=True)
    os.makedirs(md, exist_ok=True)
    cmd = ["tlc", "-workers", "1", "-metadir", md, "-cleanup", "-noGenerateSpecTE", "-config", os.path.join(SPEC, cfg), os.path.join(SPEC, module)]
    env = _tlc_env("4g", "-XX:ParallelGCThreads=2 -Dtlc2.tool.queue.IStateQueue=StateDeque")
    env["TRACE"] = path
    if extra_env:
        env.update(extra_env)
    t0 = time.time()
    try:
        p = subprocess.run(cmd, cwd=md, env=env, stdout=subprocess.PIPE, stderr=subprocess.STDOUT, text=True, timeout=timeout)
        out = p.stdout
        timed_out = False
    except subprocess.TimeoutExpired as ex:
        out = (ex.stdout or b"").decode("utf-8", "replace") if isinstance(ex.stdout, bytes) else (ex.stdout or "")
        timed_out = True
    shutil.rmtree(md, ignore_errors=True)
    r = {"file": path, "wall_s": round(time.time() - t0, 1), "accepted": False, "rejected_at": None, "mismatch": [], "states": 0, "timed_out": timed_out, "tool_error": None, "drift": []}
    for line in out.splitlines():
        m = _RE_STATES.match(line)
        if m:
            r["states"] = int(m.group(2))
        if line.startswith('"MISMATCH ') or line.startswith("MISMATCH "):
            r["mismatch"].append(line.strip().strip('"'))
        if line.startswith('"DRIFT ') or line.startswith("DRIFT "):
            r["drift"].append(line.strip().strip('"')[:300])
        mm = re.search(r"REJECTED-AT (\d+)", line)
        if mm:
            r["rejected_at"] = int(mm.group(1))
    # an EVALUATION error of TLC while it judges an event (a recorded value of an unexpected shape,
    # a function applied outside its domain, ...) is a rejection of that event: the position is the
    # value of l in the last state of the printed behaviour.  Resource failures stay tool errors.
    if (not timed_out and r["rejected_at"] is None and "The behavior up to this point is" in out
            and "StackOverflow" not in out and "OutOfMemory" not in out):
        ls = re.findall(r"^/\\ l = (\d+)", out, re.M)
        msg = [x.strip() for x in out.splitlines() if x.strip().startswith(("Attempted", ": Attempted", "Error: Attempted")) or "RuntimeException" in x or "evaluating" in x][:2]
        if ls:
            r["rejected_at"] = int(ls[-1])
            r["mismatch"].append("MISMATCH [%s,\"spec-evaluation-error\",%s]" % (ls[-1], json.dumps(" | ".join(msg))[:400]))
    if timed_out:
        r["tool_error"] = "timeout"
    elif "Model checking completed. No error has been found." in out and r["rejected_at"] is None:
        r["accepted"] = True
    elif r["rejected_at"] is None:
        r["tool_error"] = out[-3000:]
    return r


def run_tv(module, cfg, files, timeout=1500, par=None, extra_env=None, tolerate_tool_errors=False):
    """Validate recorded traces: one single-worker TLC per file, in parallel."""
    files = [f for f in files if os.path.getsize(f) > 0]
    jobs = [(i, module, cfg, f, timeout, extra_env) for i, f in enumerate(files)]
    res = []
    with cf.ThreadPoolExecutor(max_workers=par or TV_PAR) as ex:
        for r in ex.map(_run_tv_one, jobs):
            res.append(r)
    for r in res:
        if r["tool_error"] and not tolerate_tool_errors:
            log(r["tool_error"] if r["tool_error"] != "timeout" else "timeout on " + r["file"])
            raise ToolError("trace validation tool failure on %s" % r["file"])
    log("[tv] %s: %d files, %d states, %d rejected, max %.1fs" % (module, len(res), sum(r["states"] for r in res), sum(1 for r in res if not r["accepted"]), max([r["wall_s"] for r in res] or [0])))
    return res


# ---------------------------------------------------------------- traces, units, replays
def read_events(path):
    with open(path) as f:
        return [json.loads(l) for l in f if l.strip()]


def unit_of(events, idx, start_evs):
    """events of the unit (independent history) that contains 1-based index idx, up to idx."""
    i = idx - 1
    s = i
    while s > 0 and not events[s].get("unit"):
        s -= 1
    return events[s:i + 1]


def known_findings():
    known, fixed = [], []
    if os.path.exists(KNOWN):
        for line in open(KNOWN):
            line = line.strip()
            if line.startswith("known:"):
                known.append(line[6:].strip())
            elif line.startswith("fixed:"):
                fixed.append(line[6:].strip())
    return known, fixed


class Verdict:
    def __init__(self, pid, tier):
        self.pid = pid
        self.tier = tier
        self.t0 = time.time()
        self.violations = []
        self.known_hits = []
        self.cov = {"states": 0, "transitions": 0, "traces_validated_against_impl": 0, "samples": [], "evaluations": 0, "distinct_nontrivial": 0, "rule": "", "mc_runs": [], "tv_runs": [], "spec_drift": 0, "exhaustive": False}
        self.assumptions = []

    def add_mc(self, r):
        self.cov["states"] += r["distinct"]
        self.cov["transitions"] += r["generated"]
        self.cov["mc_runs"].append({k: r[k] for k in ("name", "module", "cfg", "distinct", "generated", "wall_s")} | {"actions": r["actions"]})

    def add_tv(self, label, results, events_total=None):
        self.cov["traces_validated_against_impl"] += len(results)
        st = sum(r["states"] for r in results)
        self.cov["states"] += st
        self.cov["transitions"] += st
        nd = sum(len(r.get("drift", [])) for r in results)
        self.cov["spec_drift"] += nd
        if nd:
            self.cov.setdefault("spec_drift_samples", []).extend([d for r in results for d in r.get("drift", [])][:3])
            log("SPEC-DRIFT: %d events where a prediction of the specification outside the listed properties (engine progress, error kind/offset/text, observers) differs from the recorded value (not a verdict)" % nd)
        self.cov["tv_runs"].append({"label": label, "files": len(results), "states": st, "rejected": sum(1 for r in results if not r["accepted"]), "drift": nd})

    def violation(self, what, replay_obj):
        # a recorded (not repaired) genuine defect: `known: property=<id> <key>`; the key must occur in
        # the description of the rejected observation (the exact input / call), so that any OTHER
        # violation of the same property is still reported
        for k in known_findings()[0]:
            m = re.match(r"property=(\S+)\s+(.*)", k)
            if m and m.group(1) == self.pid and m.group(2).strip() and m.group(2).strip() in what:
                if k not in self.known_hits:
                    self.known_hits.append(k)
                    print("KNOWN-FINDING: property=%s %s" % (self.pid, m.group(2).strip()), flush=True)
                return
        os.makedirs(os.path.join(REPLAYS, self.pid), exist_ok=True)
        body = json.dumps(replay_obj, sort_keys=True)
        h = hashlib.sha1(body.encode()).hexdigest()[:12]
        path = os.path.join(REPLAYS, self.pid, "%s.json" % h)
        with open(path, "w") as f:
            f.write(body)
        self.violations.append({"what": what, "replay": path})
        print("VIOLATION property=%s replay=%s" % (self.pid, path), flush=True)
        if len(self.violations) <= 2:
            log("  -> " + what[:900])

    def finish(self, level="model_checking"):
        os.makedirs(EVIDENCE, exist_ok=True)
        cov = self.cov
        if not cov["samples"]:
            cov["samples"] = ["(none recorded)"]
        ev = {"property_id": self.pid, "tier": self.tier, "seed": seed(), "level": level, "coverage": cov, "assumptions": self.assumptions, "wall_s": round(time.time() - self.t0, 1), "violations": len(self.violations), "known_findings_observed": self.known_hits}
        with open(os.path.join(EVIDENCE, self.pid + ".json"), "w") as f:
            json.dump(ev, f, indent=1, sort_keys=True)
        log("[%s] %s: %d violations, %.1fs" % (self.pid, self.tier, len(self.violations), time.time() - self.t0))
        return 1 if self.violations else 0
