------------------------------ MODULE TraceGen ------------------------------
(***************************************************************************)
(* Trace validation of the generator API (C01 C03 C12 C13): every call a   *)
(* driver made on real Generator objects, with everything it returned, is  *)
(* replayed on the reference machine L1 at real constants.                 *)
(*   new g | upd g d=[bytes] | fin g (all finalisers, size, warn) |        *)
(*   clone g to | fix g n r | reset g | zeros g n (guarded hook)           *)
(***************************************************************************)
EXTENDS GenReal, TraceBase
T == INSTANCE Text WITH MAXRUN <- 3, NUMBS <- 31, CAP1 <- 64, CAP2S <- 32, CAP2L <- 64
S == INSTANCE Stream WITH BUF <- 32768
VARIABLES l, j, gens
vars == <<l, j, gens>>
Ev(k) == l <= NRec /\ Rec[l].ev = k
E == Rec[l]
Done == l' = l + 1 /\ j' = 0

J(res) == IF res.err = "none" THEN [e |-> "none", k |-> res.log, a |-> res.b1, b |-> res.b2]
          ELSE [e |-> res.err]
(* the recorded result o has exactly the fields the specification predicts, with
   the same values (extra recorded fields such as is_valid are used by other specs) *)
Same(x, o) == DOMAIN x \subseteq DOMAIN o /\ x = [f \in DOMAIN x |-> o[f]]
              /\ (x.e # "none" => o.e = x.e)
              /\ (x.e = "none" => o.v = TRUE)          \* the returned object passes is_valid() (C11)
Warn(g) == G!SzLT(IF g.fixed # G!NoSize THEN g.fixed ELSE g.ref.size, <<0, 4097>>)

Init == l = 1 /\ j = 0 /\ gens = <<>>
EvNew == Ev("new") /\ gens' = (E.g :> G!GInit) @@ gens /\ Done
EvZeros == Ev("zeros") /\ gens' = (E.g :> ZerosState(E.n)) @@ gens /\ Done
EvClone == Ev("clone") /\ gens' = (E.to :> gens[E.g]) @@ gens /\ Done
EvReset == Ev("reset") /\ gens' = [gens EXCEPT ![E.g] = G!GInit] /\ Done
EvUpd == /\ Ev("upd")
         /\ IF j < Len(E.d)
            THEN /\ gens' = [gens EXCEPT ![E.g] = G!GStep(@, E.d[j + 1])]
                 /\ IF j + 1 = Len(E.d) THEN Done ELSE (j' = j + 1 /\ l' = l)
            ELSE /\ Len(E.d) = 0 /\ UNCHANGED gens /\ Done
EvFix == /\ Ev("fix")
         /\ LET r == G!GSetFixedResult(gens[E.g], E.n) IN
            /\ Expect(r = E.r, <<l, "fix", r>>)
            /\ gens' = [gens EXCEPT ![E.g] = G!GSetFixed(@, E.n)]
         /\ Done
EvFin == /\ Ev("fin")
         /\ LET g == gens[E.g]
                x == [t |-> J(G!GFin(g, TRUE, FALSE)), n |-> J(G!GFin(g, FALSE, TRUE)),
                      s |-> J(G!GFin(g, FALSE, FALSE)), u |-> J(G!GFin(g, TRUE, TRUE)),
                      sz |-> g.ref.size, warn |-> Warn(g)]
            IN Expect(Same(x.t, E.t) /\ Same(x.n, E.n) /\ Same(x.s, E.s) /\ Same(x.u, E.u)
                      /\ x.sz = E.sz /\ x.warn = E.warn
                      (* the string form of finalize() (C01 observe_at, C05) *)
                      /\ E.txt = (IF x.t.e = "none" THEN T!Format([k |-> x.t.k, a |-> x.t.a, b |-> x.t.b]) ELSE <<>>),
                      <<l, "fin", x>>)
         /\ UNCHANGED gens /\ Done
(* hash_buf / hash_stream over the bytes fed to g: both create their own generator;
   hash_buf declares the size (equal to what it then feeds), so both must return the
   default (truncated, short) hash of exactly those bytes *)
EvEasy == /\ (Ev("hashbuf") \/ Ev("hashstream"))
          /\ LET x == J(G!RFin(gens[E.g].ref, TRUE, FALSE)) IN
             Expect(Same(x, E.r), <<l, E.ev, x>>)
          /\ UNCHANGED gens /\ Done
(* a generator that was REALLY fed n zero bytes by update() (too many to step one by one) *)
EvRealZeros == Ev("realzeros") /\ gens' = (E.g :> ZerosState(E.n)) @@ gens /\ Done
(* the guarded hook against really feeding zeros: abstract states equal (lemma at real
   constants) and the implementation's inner data compared equal *)
EvSame == /\ Ev("same")
          /\ Expect(gens[E.g] = gens[E.h], <<l, "same-spec", "ZerosState(n) differs from n zero steps">>)
          /\ Expect(E.r = TRUE, <<l, "same-hook", "hook state differs from really feeding zeros">>)
          /\ UNCHANGED gens /\ Done
(* C18: hash_stream over a scripted reader.  E.g holds exactly the bytes the reader delivered
   before it reported end of file (used only when no error is expected); E.n = payload length *)
EvStream == /\ Ev("stream")
            /\ LET w == S!Walk(E.script, 1, 0, E.n) IN
               Expect(/\ E.reads = w.reads /\ E.reads_after_error = 0
                      /\ IF w.io THEN E.r.e = "io" /\ E.r.kind = w.kind /\ E.r.id = w.id
                         ELSE /\ gens[E.g].ref.size = G!SzOf(w.pos)
                              /\ Same(J(G!RFin(gens[E.g].ref, TRUE, FALSE)), E.r),
                      <<l, "stream", w>>)
            /\ UNCHANGED gens /\ Done
(* C18: hash_file.  what: regular | missing | dir | special (metadata size may differ from
   what is delivered: FIFO, procfs).  E.g holds the delivered bytes when a hash is expected *)
EvFile == /\ Ev("file")
          /\ Expect(CASE E.what \in {"missing", "dir"} -> E.r.e = "io" /\ (E.what = "missing" => E.r.kind = "NotFound")
                      [] E.meta # E.delivered -> E.r.e = "Mismatch"
                      [] OTHER -> gens[E.g].ref.size = E.delivered /\ Same(J(G!RFin(gens[E.g].ref, TRUE, FALSE)), E.r),
                    <<l, "file", E.what>>)
          /\ UNCHANGED gens /\ Done
Next == EvStream \/ EvFile \/ EvEasy \/ EvRealZeros \/ EvSame \/ EvNew \/ EvZeros \/ EvClone \/ EvReset \/ EvUpd \/ EvFix \/ EvFin
Spec == Init /\ [][Next]_vars
Progress == Mark(l)
=============================================================================
