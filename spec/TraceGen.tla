------------------------------ MODULE TraceGen ------------------------------
(***************************************************************************)
(* Trace validation of the generator API (C01 C03 C12 C13): every call a   *)
(* driver made on real Generator objects, with everything it returned, is  *)
(* replayed on the reference machine L1 at real constants.                 *)
(*   new g | upd g d=[bytes] | fin g (all finalisers, size, warn) |        *)
(*   clone g to | fix g n r | reset g | zeros g n (guarded hook)           *)
(***************************************************************************)
EXTENDS GenReal, TraceBase
VARIABLES l, j, gens
vars == <<l, j, gens>>
Ev(k) == l <= NRec /\ Rec[l].ev = k
E == Rec[l]
Done == l' = l + 1 /\ j' = 0

J(res) == IF res.err = "none" THEN [e |-> "none", k |-> res.log, a |-> res.b1, b |-> res.b2]
          ELSE [e |-> res.err]
Warn(g) == G!SzLT(IF g.fixed # G!NoSize THEN g.fixed ELSE g.ref.size, <<0, 4097>>)

Init == l = 1 /\ j = 0 /\ gens = <<>>
EvNew == Ev("new") /\ gens' = (E.g :> G!GInit) @@ gens /\ Done
EvZeros == Ev("zeros") /\ gens' = (E.g :> ZerosState(E.n)) @@ gens /\ Done
EvClone == Ev("clone") /\ gens' = (E.to :> gens[E.g]) @@ gens /\ Done
EvReset == Ev("reset") /\ gens' = [gens EXCEPT ![E.g] = G!GInit] /\ Done
EvUpd == /\ Ev("upd")
         /\ IF j < Len(E.d)
            THEN /\ gens' = [gens EXCEPT ![E.g] = G!GStep(@, E.d[j + 1])]
                 /\ IF j + 1 = Len(E.d) THEN Done ELSE (j' = j + 1 /\ l' = l)
            ELSE /\ Len(E.d) = 0 /\ UNCHANGED gens /\ Done
EvFix == /\ Ev("fix")
         /\ LET r == G!GSetFixedResult(gens[E.g], E.n) IN
            /\ Expect(r = E.r, <<l, "fix", r>>)
            /\ gens' = [gens EXCEPT ![E.g] = G!GSetFixed(@, E.n)]
         /\ Done
EvFin == /\ Ev("fin")
         /\ LET g == gens[E.g]
                x == [t |-> J(G!GFin(g, TRUE, FALSE)), n |-> J(G!GFin(g, FALSE, TRUE)),
                      s |-> J(G!GFin(g, FALSE, FALSE)), u |-> J(G!GFin(g, TRUE, TRUE)),
                      sz |-> g.ref.size, warn |-> Warn(g)]
            IN Expect(x.t = E.t /\ x.n = E.n /\ x.s = E.s /\ x.u = E.u
                      /\ x.sz = E.sz /\ x.warn = E.warn, <<l, "fin", x>>)
         /\ UNCHANGED gens /\ Done
Next == EvNew \/ EvZeros \/ EvClone \/ EvReset \/ EvUpd \/ EvFix \/ EvFin
Spec == Init /\ [][Next]_vars
Progress == Mark(l)
=============================================================================
