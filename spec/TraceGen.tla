------------------------------ MODULE TraceGen ------------------------------
(***************************************************************************)
(* Trace validation of the generator API (C01 C03 C12 C13): every call a   *)
(* driver made on real Generator objects, with everything it returned, is  *)
(* replayed on the reference machine L1 at real constants.                 *)
(*   new g | upd g d=[bytes] | fin g (all finalisers, size, warn) |        *)
(*   clone g to | fix g n r | reset g | zeros g n (guarded hook)           *)
(***************************************************************************)
EXTENDS GenReal, TraceBase
T == INSTANCE Text WITH MAXRUN <- 3, NUMBS <- 31, CAP1 <- 64, CAP2S <- 32, CAP2L <- 64
S == INSTANCE Stream WITH BUF <- 32768
Msg == INSTANCE Messages
CONSTANT LOCKSTEP      \* TRUE: also step the implementation-shaped model L2 and compare (thorough tier)
VARIABLES l, j, gens
vars == <<l, j, gens>>
Ev(k) == l <= NRec /\ Rec[l].ev = k
E == Rec[l]
Done == l' = l + 1 /\ j' = 0

J(res) == IF res.err = "none" THEN [e |-> "none", k |-> res.log, a |-> res.b1, b |-> res.b2]
          ELSE [e |-> res.err]
(* the recorded result o has exactly the fields the specification predicts, with
   the same values (extra recorded fields such as is_valid are used by other specs) *)
Same(x, o) == DOMAIN x \subseteq DOMAIN o /\ x = [f \in DOMAIN x |-> o[f]]
              /\ (x.e # "none" => o.e = x.e)
              /\ (x.e = "none" => o.v = TRUE)          \* the returned object passes is_valid() (C11)
(* the error a reader-based entry point returns IS the wrapped error: `Error::source()` leads to
   an error of the same kind and text (I/O) or the equal generator error; no source otherwise *)
SrcOK(r) == r.src = (IF r.e = "io" THEN "io" ELSE IF r.e \in {"none", "panic"} THEN "" ELSE "gen")
Warn(g) == G!SzLT(IF g.fixed # G!NoSize THEN g.fixed ELSE g.ref.size, <<0, 4097>>)

(* L2 in lock-step: the slice forms (update, += slice, += array) add the whole length up front,
   the other forms add one per byte - exactly the accounting the elimination test reads *)
ImplStep(im, form, jj, len, c) ==
  IF ~LOCKSTEP THEN im
  ELSE LET slice == form \in {0, 3, 4}
           im1 == IF slice THEN (IF jj = 0 THEN [im EXCEPT !.size = G!SzAdd(@, G!SzOf(len))] ELSE im)
                  ELSE [im EXCEPT !.size = G!SzAdd(@, G!SzOf(1))]
       IN I!IStep(im1, c)
Drift(cond, info) == IF cond THEN TRUE ELSE PrintT("DRIFT " \o ToJson(info))
Init == l = 1 /\ j = 0 /\ gens = <<>>
WithImpl(g, im) == [ref |-> g.ref, fixed |-> g.fixed, impl |-> im]
EvNew == Ev("new") /\ gens' = (E.g :> WithImpl(G!GInit, I!IInit)) @@ gens /\ Done
EvZeros == Ev("zeros") /\ gens' = (E.g :> WithImpl(ZerosState(E.n), IZerosState(E.n))) @@ gens /\ Done
EvClone == Ev("clone") /\ gens' = (E.to :> gens[E.g]) @@ gens /\ Done
EvReset == Ev("reset") /\ gens' = [gens EXCEPT ![E.g] = WithImpl(G!GInit, IF LOCKSTEP THEN I!IReset(@.impl) ELSE @.impl)] /\ Done
EvUpd == /\ Ev("upd")
         /\ IF j < Len(E.d)
            THEN /\ gens' = [gens EXCEPT ![E.g] = WithImpl(G!GStep(@, E.d[j + 1]), ImplStep(@.impl, E.f, j, Len(E.d), E.d[j + 1]))]
                 /\ IF j + 1 = Len(E.d) THEN Done ELSE (j' = j + 1 /\ l' = l)
            ELSE /\ Len(E.d) = 0 /\ UNCHANGED gens /\ Done
EvFix == /\ Ev("fix")
         /\ LET r == G!GSetFixedResult(gens[E.g], E.n) IN
            /\ Expect(r = E.r, <<l, "fix", r>>)
            /\ gens' = [gens EXCEPT ![E.g] = WithImpl(G!GSetFixed(@, E.n), IF LOCKSTEP THEN I!ISetFixed(@.impl, E.n) ELSE @.impl)]
         /\ Done
EvFin == /\ Ev("fin")
         /\ LET g == gens[E.g]
                x == [t |-> J(G!GFin(g, TRUE, FALSE)), n |-> J(G!GFin(g, FALSE, TRUE)),
                      s |-> J(G!GFin(g, FALSE, FALSE)), u |-> J(G!GFin(g, TRUE, TRUE)),
                      sz |-> g.ref.size, warn |-> Warn(g)]
            IN Expect(Same(x.t, E.t) /\ Same(x.n, E.n) /\ Same(x.s, E.s) /\ Same(x.u, E.u)
                      /\ x.sz = E.sz /\ x.warn = E.warn
                      (* the string form of finalize() (C01 observe_at, C05) *)
                      /\ E.txt = (IF x.t.e = "none" THEN T!Format([k |-> x.t.k, a |-> x.t.a, b |-> x.t.b]) ELSE <<>>),
                      <<l, "fin", x>>)
         /\ (LOCKSTEP =>
              LET im == gens[E.g].impl
                  ag(tr, lg) == I!IFin(im, tr, lg) = G!GFin(gens[E.g], tr, lg) IN
              (* the specification's own layers must agree on the real execution (L2 = L1) *)
              /\ Expect(ag(TRUE, FALSE) /\ ag(FALSE, TRUE) /\ ag(FALSE, FALSE) /\ ag(TRUE, TRUE), <<l, "spec-l2-vs-l1", I!IFin(im, TRUE, TRUE)>>)
              (* the engine's progress as the implementation reports it: drift is reported, never a verdict *)
              /\ Drift(E.probe.st = im.st /\ E.probe.en = im.en /\ E.probe.lim = im.lim /\ E.probe.isl = im.isl
                       /\ \A i \in im.st..(im.en - 1) : E.probe.idx[i + 1] = im.cx[i].idx,
                       <<l, "engine-progress", [st |-> im.st, en |-> im.en, lim |-> im.lim, isl |-> im.isl]>>))
         /\ UNCHANGED gens /\ Done
(* hash_buf / hash_stream over the bytes fed to g: both create their own generator;
   hash_buf declares the size (equal to what it then feeds), so both must return the
   default (truncated, short) hash of exactly those bytes *)
EvEasy == /\ (Ev("hashbuf") \/ Ev("hashstream"))
          /\ LET x == J(G!RFin(gens[E.g].ref, TRUE, FALSE)) IN
             Expect(Same(x, E.r), <<l, E.ev, x>>)
          /\ UNCHANGED gens /\ Done
(* a generator that was REALLY fed n zero bytes by update() (too many to step one by one) *)
EvRealZeros == Ev("realzeros") /\ gens' = (E.g :> WithImpl(ZerosState(E.n), IZerosState(E.n))) @@ gens /\ Done
(* the guarded hook against really feeding zeros: abstract states equal (lemma at real
   constants) and the implementation's inner data compared equal *)
EvSame == /\ Ev("same")
          /\ Expect(gens[E.g].ref = gens[E.h].ref /\ gens[E.g].fixed = gens[E.h].fixed
                    /\ (LOCKSTEP => gens[E.g].impl = gens[E.h].impl), <<l, "same-spec", "ZerosState(n) differs from n zero steps">>)
          /\ Expect(E.r = TRUE, <<l, "same-hook", "hook state differs from really feeding zeros">>)
          /\ UNCHANGED gens /\ Done
(* C18: hash_stream over a scripted reader.  E.g holds exactly the bytes the reader delivered
   before it reported end of file (used only when no error is expected); E.n = payload length *)
EvStream == /\ Ev("stream")
            /\ LET w == S!WalkB(E.script, 1, 0, E.n, E.bl) IN       \* E.bl: the buffer length the reader saw
               Expect(/\ E.bl > 0 /\ E.reads = w.reads /\ E.reads_after_error = 0 /\ SrcOK(E.r)
                      /\ IF w.io THEN E.r.e = "io" /\ E.r.kind = w.kind /\ E.r.id = w.id
                         ELSE /\ gens[E.g].ref.size = G!SzOf(w.pos)
                              /\ Same(J(G!RFin(gens[E.g].ref, TRUE, FALSE)), E.r),
                      <<l, "stream", w>>)
            /\ UNCHANGED gens /\ Done
(* C18: hash_stream over a reader delivering E.n zero bytes, then end of file or an error *)
EvStreamZeros == /\ Ev("streamzeros")
                 /\ Expect(IF E.fail THEN E.r.e = "io" /\ E.r.kind = "Other" /\ E.r.id = 77
                           ELSE Same(J(G!RFin(ZerosState(E.n).ref, TRUE, FALSE)), E.r), <<l, "streamzeros">>)
                 /\ Expect(E.reads_after_end = 0 /\ SrcOK(E.r), <<l, "streamzeros-reads-after-end">>)
                 /\ UNCHANGED gens /\ Done
(* C18: hash_file.  what: regular | missing | dir | special (metadata size may differ from
   what is delivered: FIFO, procfs).  E.g holds the delivered bytes when a hash is expected *)
EvFile == /\ Ev("file")
          /\ Expect(CASE E.what \in {"missing", "dir"} -> E.r.e = "io" /\ (E.what = "missing" => E.r.kind = "NotFound")
                      [] E.meta # E.delivered -> E.r.e = "Mismatch"
                      [] OTHER -> gens[E.g].ref.size = E.delivered /\ Same(J(G!RFin(gens[E.g].ref, TRUE, FALSE)), E.r),
                    <<l, "file", E.what>>)
          /\ Expect(SrcOK(E.r), <<l, "file-error-source">>)
         /\ UNCHANGED gens /\ Done
(* libfuzzy's own test vectors against the SPECIFICATION: flags 1 = truncated, 2 = not truncated,
   4 = the expected text is the run-collapsed hash *)
EvAnchor == /\ Ev("anchor")
            /\ LET g == gens[E.g]
                   shape(r) == [k |-> r.log, a |-> r.b1, b |-> r.b2]
                   txt(r) == T!Format(IF (E.flags \div 4) % 2 = 1 THEN T!NormalizeHash(shape(r)) ELSE shape(r))
                   rt == G!GFin(g, TRUE, TRUE)
                   rn == G!GFin(g, FALSE, TRUE)
               IN Expect(/\ (E.flags % 2 = 1 => (rt.err = "none" /\ txt(rt) = E.want))
                         /\ ((E.flags \div 2) % 2 = 1 => (rn.err = "none" /\ txt(rn) = E.want)),
                         <<l, "anchor", E.file, txt(rt), txt(rn)>>)
            /\ UNCHANGED gens /\ Done
(* the error values: displayed text and classification (outside the listed properties: drift) *)
EvErrs == /\ Ev("errs")
          /\ Drift(/\ {E.gen[i].name : i \in 1..Len(E.gen)} = DOMAIN Msg!GeneratorErrorMsg
                   /\ \A i \in 1..Len(E.gen) : /\ E.gen[i].msg = Msg!GeneratorErrorMsg[E.gen[i].name]
                                                /\ E.gen[i].tl = Msg!GeneratorErrorIsSizeTooLarge[E.gen[i].name]
                   /\ {E.op[i].name : i \in 1..Len(E.op)} = DOMAIN Msg!OperationErrorMsg
                   /\ \A i \in 1..Len(E.op) : E.op[i].msg = Msg!OperationErrorMsg[E.op[i].name], <<l, "error-texts">>)
          /\ UNCHANGED gens /\ Done
Next == EvErrs \/ EvAnchor \/ EvStream \/ EvStreamZeros \/ EvFile \/ EvEasy \/ EvRealZeros \/ EvSame \/ EvNew \/ EvZeros \/ EvClone \/ EvReset \/ EvUpd \/ EvFix \/ EvFin
Spec == Init /\ [][Next]_vars
Progress == Mark(l)
=============================================================================
