--------------------------- MODULE MCCompareLaws ---------------------------
(***************************************************************************)
(* The laws of C10 as theorems of the specification on complete small      *)
(* domains (WIN = 3):                                                      *)
(*  string level: for ALL pairs of normalised strings over SYMS up to      *)
(*    MAXLEN and every block size index: the score is in 0..100,           *)
(*    symmetric, positive exactly when the strings share a window;         *)
(*  hash level: for ALL pairs of hashes (index x pool x pool): range,      *)
(*    symmetry, identity = 100, far = 0, positive iff equal or candidate,  *)
(*    candidate iff the index window sets intersect.                       *)
(***************************************************************************)
EXTENDS Compare, TLC
CONSTANTS SYMS, MAXLEN, POOL, MODE
MCPool == {<<>>, <<0, 0>>, <<0, 1, 0>>, <<0, 1, 0, 1>>, <<1, 0, 1, 1>>, <<1, 1, 0, 1, 0>>, <<0, 0, 1, 1, 1>>, <<1, 0, 0, 1, 1, 0>>}
NoPool == {}
NStrs == {s \in UNION {[1..n -> SYMS] : n \in 0..MAXLEN} : IsNormalized(s)}
Logs == 0..(NUMBS - 1)
Hashes == {[k |-> k, a |-> x, b |-> y] : k \in Logs, x \in POOL, y \in POOL}
VARIABLES p, q, done
Init == q = 0 /\ done = FALSE /\ p \in (IF MODE = "strings" THEN NStrs ELSE Hashes)
StringLaws(x, y) ==
  \A n \in 0..NUMBS :
    LET s == ScoreStrings(x, y, n) IN
    /\ Assert(s \in 0..100, <<"range", x, y, n, s>>)
    /\ Assert(s = ScoreStrings(y, x, n), <<"symmetry", x, y, n>>)
    /\ Assert((s > 0) <=> Common(x, y), <<"positive iff common", x, y, n, s>>)
    /\ Assert(Common(x, y) => RawScore(Len(x), Len(y), Dist(x, y)) >= 1, <<"raw >= 1", x, y>>)
HashLaws(A, B) ==
  LET s == Compare(A, B) IN
  /\ Assert(s \in 0..100, <<"range", A, B, s>>)
  /\ Assert(s = Compare(B, A), <<"symmetry", A, B, s, Compare(B, A)>>)
  /\ Assert(A = B => s = 100, <<"identity", A>>)
  /\ Assert(Relation(A.k, B.k) = "Far" => s = 0, <<"far", A, B>>)
  /\ Assert((s > 0) <=> (A = B \/ Candidate(A, B)), <<"positive iff equal or candidate", A, B, s>>)
  /\ Assert(Candidate(A, B) <=> (IndexWindows(A) \cap IndexWindows(B) # {}), <<"candidate iff windows meet", A, B>>)
  /\ Assert(Candidate(A, B) = Candidate(B, A), <<"candidate symmetric", A, B>>)
Next == /\ ~done /\ done' = TRUE
        /\ \E y \in (IF MODE = "strings" THEN NStrs ELSE Hashes) :
             q' = y /\ p' = p /\ (IF MODE = "strings" THEN StringLaws(p, y) ELSE HashLaws(p, y))
Spec == Init /\ [][Next]_<<p, q, done>>
=============================================================================
