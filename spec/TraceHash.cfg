SPECIFICATION Spec
CONSTANTS
  LB = 16
  WINDOW = 7
  SHIFT = 5
INVARIANT Progress
POSTCONDITION Accepted
CHECK_DEADLOCK FALSE
