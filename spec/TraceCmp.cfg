SPECIFICATION Spec
CONSTANTS
  MAXRUN = 3
  WIN = 7
  FULL = 64
  NUMBS = 31
  LB = 16
INVARIANT Progress
POSTCONDITION Accepted
CHECK_DEADLOCK FALSE
