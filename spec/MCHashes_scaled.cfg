SPECIFICATION Spec
CONSTANTS
  LB = 4
  WINDOW = 3
  SHIFT = 3
  BYTES = {0, 1, 6, 9, 15}
  MAXLEN = 7
  FNVGRID = FALSE
INVARIANTS WindowOnly IncFields
CHECK_DEADLOCK FALSE
