SPECIFICATION Spec
CONSTANTS
  MAXRUN = 2
  RUNMAX = 2
  CAP = 6
  RLECAP = 2
  HALF = 3
  NSYM = 3
CHECK_DEADLOCK FALSE
