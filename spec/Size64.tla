------------------------------- MODULE Size64 -------------------------------
(***************************************************************************)
(* Input sizes (u64 in the implementation, up to 192 GiB + k) as           *)
(* <<hi, lo>> in base SB.  Real scale: SB = 2^24.  Scaled models use a     *)
(* tiny SB so that the carry logic is exercised exhaustively.              *)
(***************************************************************************)
EXTENDS Integers
CONSTANT SB
SzZero == <<0, 0>>
SzOf(n) == <<n \div SB, n % SB>>
SzAdd(a, b) == LET s == a[2] + b[2] IN <<a[1] + b[1] + (s \div SB), s % SB>>
SzLE(a, b) == a[1] < b[1] \/ (a[1] = b[1] /\ a[2] <= b[2])
SzLT(a, b) == a[1] < b[1] \/ (a[1] = b[1] /\ a[2] < b[2])
SzToNat(a) == a[1] * SB + a[2]                   \* only when it fits
=============================================================================
