------------------------------- MODULE Stream -------------------------------
(***************************************************************************)
(* hash_stream / hash_file (C18): the reader loop of generate_easy_std.rs  *)
(*   loop { len = reader.read(buf)?; if len = 0 break; gen.update(buf[..len]) }  *)
(*   finalize                                                              *)
(* against a reader that may return short reads, fail with an error at any *)
(* read, or report end of file.  Walk is the declarative statement used by *)
(* trace validation; MCStream model-checks the loop machine against it.    *)
(***************************************************************************)
EXTENDS Integers, Sequences
CONSTANT BUF              \* buffer size (32768)
MinOf3(a, b, c) == IF a <= b THEN (IF a <= c THEN a ELSE c) ELSE (IF b <= c THEN b ELSE c)
(* script element: <<"d", k>> deliver up to k bytes (0 once everything is delivered);
   <<"e", kind, id>> fail with that error; <<"z">> report end of file now.
   A reader whose script is exhausted reports end of file.
   Result: [io |-> TRUE, kind, id, reads] or [io |-> FALSE, pos (bytes delivered), reads];
   reads = number of read() calls made (the loop must not read again after an error / EOF) *)
(* WalkB takes the length of the buffer the loop hands to read(): trace validation passes the length
   the reader actually observed (the property does not fix a buffer size), the model MCStream its
   constant BUF *)
RECURSIVE WalkB(_, _, _, _, _)
WalkB(script, i, pos, n, buf) ==
  IF i > Len(script) THEN [io |-> FALSE, pos |-> pos, reads |-> i]
  ELSE IF script[i][1] = "e" THEN [io |-> TRUE, kind |-> script[i][2], id |-> script[i][3], reads |-> i]
  ELSE IF script[i][1] = "z" \/ pos = n THEN [io |-> FALSE, pos |-> pos, reads |-> i]
  ELSE WalkB(script, i + 1, pos + MinOf3(script[i][2], buf, n - pos), n, buf)
Walk(script, i, pos, n) == WalkB(script, i, pos, n, BUF)
=============================================================================
