------------------------------- MODULE Hashes -------------------------------
(***************************************************************************)
(* The hash primitives of ssdeep (C19):                                    *)
(*   - the rolling hash over the last WINDOW bytes, as a definition        *)
(*     (RollDef) and as the incremental machine of rolling_hash.rs         *)
(*     (the RollInc operators);                                                         *)
(*   - 32-bit FNV-1 with ssdeep's initial value and its 6-bit reduction.   *)
(***************************************************************************)
EXTENDS Word32, Sequences
CONSTANTS WINDOW, SHIFT

(* ---------- rolling hash: definition over a window (oldest byte first) -- *)
RECURSIVE RollH1(_, _), RollH2(_, _), RollH3(_, _)
RollH1(w, i) == IF i = 0 THEN 0 ELSE RollH1(w, i - 1) + w[i]
RollH2(w, i) == IF i = 0 THEN 0 ELSE RollH2(w, i - 1) + i * w[i]
RollH3(w, i) == IF i = 0 THEN WZero ELSE WXorLow(WShl(RollH3(w, i - 1), SHIFT), w[i])
RollDef(w) == WAdd(WAdd(WOf(RollH1(w, WINDOW)), WOf(RollH2(w, WINDOW))), RollH3(w, WINDOW))

WinInit == [i \in 1..WINDOW |-> 0]
WinPush(w, c) == [i \in 1..WINDOW |-> IF i = WINDOW THEN c ELSE w[i + 1]]

(* ---------- rolling hash: the incremental machine of the implementation - *)
RollIncInit == [idx |-> 0, h1 |-> WZero, h2 |-> WZero, h3 |-> WZero, win |-> WinInit]
RollIncStep(s, c) ==
  LET h2a == WAdd(WSub(s.h2, s.h1), WOf(WINDOW * c))
      h1a == WSub(WAdd(s.h1, WOf(c)), WOf(s.win[s.idx + 1]))
  IN [idx |-> (s.idx + 1) % WINDOW, h1 |-> h1a, h2 |-> h2a,
      h3  |-> WXorLow(WShl(s.h3, SHIFT), c),
      win |-> [s.win EXCEPT ![s.idx + 1] = c]]
RollIncValue(s) == WAdd(WAdd(s.h1, s.h2), s.h3)

(* ---------- piece boundaries ------------------------------------------- *)
(* v = rolling hash + 1 (as a true integer 1..2^32; the wrapped value 0    *)
(* stands for 2^32, which is no multiple of 3).  A piece ends at block     *)
(* size index n iff v is a multiple of 3 * 2^n; TriggerLevel is the        *)
(* largest such n, or -1.                                                  *)
TriggerLevel(roll) == LET v == WInc(roll) IN
                      IF WIsZero(v) \/ WMod3(v) # 0 THEN -1 ELSE WNtz(v)

(* ---------- FNV-1 (real constants only: LB = 16) ------------------------ *)
Fnv32Init == <<10242, 6503>>                     \* 0x28021967
Fnv32Step(h, c) ==                                \* (h * 0x01000193 mod 2^32) xor c
  LET low == h[2] * 403 IN
  <<(h[1] * 403 + (low \div 65536) + (h[2] % 256) * 256) % 65536, (low % 65536) ^^ c>>
Fnv32Low6(h) == h[2] % 64

Fnv6Init == 39                                    \* 0x27 = 0x28021967 mod 64
Fnv6Step(h, c) == ((h * 19) % 64) ^^ (c % 64)     \* 0x01000193 mod 64 = 19
=============================================================================
