SPECIFICATION Spec
CONSTANTS
  MAXRUN = 3
  NUMBS = 31
  CAP1 = 64
  CAP2S = 32
  CAP2L = 64
  LB = 16
  STRICT = FALSE
INVARIANT Progress
POSTCONDITION Accepted
CHECK_DEADLOCK FALSE
