------------------------------ MODULE MCOrder ------------------------------
(***************************************************************************)
(* On a complete small domain that includes trailing symbol-0 characters:  *)
(* Cmp is a strict total order consistent with equality (antisymmetric,    *)
(* transitive, 0 iff equal) and the implementation's padded-array          *)
(* comparison coincides with it.                                           *)
(***************************************************************************)
EXTENDS Order, TLC
CONSTANTS KS, SYMS, L1, L2
Strs(n) == UNION {[1..m -> SYMS] : m \in 0..n}
Objs == {[k |-> k, a |-> x, b |-> y] : k \in KS, x \in Strs(L1), y \in Strs(L2)}
VARIABLES p, done
Init == p \in Objs /\ done = FALSE
Check(A) ==
  \A B \in Objs :
    /\ Assert(Cmp(A, B) = -Cmp(B, A), <<"antisymmetry", A, B>>)
    /\ Assert((Cmp(A, B) = 0) <=> (A = B), <<"equal iff same", A, B>>)
    /\ Assert(ImplCmp(A, B, L1, L2) = Cmp(A, B), <<"implementation shape", A, B, ImplCmp(A, B, L1, L2), Cmp(A, B)>>)
    /\ \A C \in Objs : Assert((Cmp(A, B) <= 0 /\ Cmp(B, C) <= 0) => Cmp(A, C) <= 0, <<"transitivity", A, B, C>>)
Next == ~done /\ done' = TRUE /\ p' = p /\ Check(p)
Spec == Init /\ [][Next]_<<p, done>>
=============================================================================
