------------------------------ MODULE CtphRef ------------------------------
(***************************************************************************)
(* Context triggered piecewise hashing as ssdeep 2.14.1 defines it.        *)
(*                                                                         *)
(* L0: a definition over the whole input sequence (no machine at all).     *)
(* L1: the obvious incremental reference machine: every block size runs    *)
(*     from the first byte; no fork, no elimination, no fork limit.        *)
(*                                                                         *)
(* The module is generic in the interpretation of an input event:          *)
(*   real bytes   - roll = window of the last 7 bytes, hash = 6-bit FNV-1  *)
(*                  (module GenReal);                                      *)
(*   abstract     - an event carries its trigger level directly and the    *)
(*                  hash is "piece length mod K" (module MCGenerator).     *)
(* Block size index n stands for block size MINBS * 2^n.                   *)
(***************************************************************************)
EXTENDS Integers, Sequences, FiniteSets, SequencesExt, Size64
CONSTANTS NUM,            \* number of block sizes (31)
          LEN,            \* block hash length (64); HALF = LEN / 2
          UNIT,           \* MINBS * LEN (192): preferred maximum size at index 0
          RollInit, RollNext(_, _), RollLevel(_), RollIsZero(_),
          HInit, HNext(_, _)

HALF == LEN \div 2
NIL == -1
NoSize == <<-1, -1>>                 \* "no size declared"
MinOf(a, b) == IF a <= b THEN a ELSE b
MaxOf(a, b) == IF a >= b THEN a ELSE b

RECURSIVE BorderRec(_)
(* (the set construction binds b to a VALUE: TLC does not cache lazily evaluated LET
   definitions and operator arguments outside actions, and a double reference to
   BorderRec(n - 1) would make this exponential) *)
BorderRec(n) == IF n = 0 THEN SzOf(UNIT)
                ELSE CHOOSE r \in {SzAdd(b, b) : b \in {BorderRec(n - 1)}} : TRUE
Borders == [n \in 0..(NUM - 1) |-> BorderRec(n)]      \* Borders[n] = UNIT * 2^n
MaxSize == Borders[NUM - 1]                           \* 192 GiB
(* smallest n with UNIT * 2^n >= size; NUM-1 beyond the last border *)
Guess(size) == IF \E n \in 0..(NUM - 1) : SzLE(size, Borders[n])
               THEN CHOOSE n \in 0..(NUM - 1) :
                      SzLE(size, Borders[n]) /\ \A m \in 0..(n - 1) : ~SzLE(size, Borders[m])
               ELSE NUM - 1

(* ======================= L0: whole-sequence definition ================== *)
RECURSIVE L0RollAt(_, _), L0Hash(_, _, _)
L0RollAt(es, k) == IF k = 0 THEN RollInit ELSE RollNext(L0RollAt(es, k - 1), es[k])
L0Hash(es, a, b) == IF b <= a THEN HInit ELSE HNext(L0Hash(es, a, b - 1), es[b])   \* es[a+1..b]
L0Trig(es, n) == {k \in 1..Len(es) : RollLevel(L0RollAt(es, k)) >= n}
(* the digest at index n keeping lim symbols: lim-1 pieces and one tail symbol *)
L0Digest(es, n, lim, rz) ==
  LET ts   == SetToSortSeq(L0Trig(es, n), <)
      cnt  == Len(ts)
      k    == MinOf(cnt, lim - 1)
      T(j) == IF j = 0 THEN 0 ELSE ts[j]
      kept == [j \in 1..k |-> L0Hash(es, T(j - 1), T(j))]
  IN IF ~rz THEN Append(kept, L0Hash(es, T(k), Len(es)))
     ELSE IF cnt >= lim THEN Append(kept, L0Hash(es, T(k), T(cnt)))
     ELSE kept
L0Count(es, n) == Cardinality(L0Trig(es, n))
L0Started(es) == MinOf(NUM, 1 + Cardinality({n \in 0..(NUM - 1) : L0Trig(es, n) # {}}))
RECURSIVE L0Adj(_, _)
L0Adj(es, bi) == IF bi > 0 /\ MinOf(L0Count(es, bi), LEN - 1) < HALF THEN L0Adj(es, bi - 1) ELSE bi
(* rz: "the rolling hash of the last WINDOW bytes is zero"; a parameter so that
   abstract models can quantify over it *)
L0FinRz(es, trunc, long, rz) ==
  LET size == SzOf(Len(es))
      en   == L0Started(es)
      bi   == L0Adj(es, MinOf(Guess(size), en - 1))
      b2   == IF bi < en - 1 THEN L0Digest(es, bi + 1, IF trunc THEN HALF ELSE LEN, rz)
              ELSE IF rz THEN <<>> ELSE <<L0Hash(es, 0, Len(es))>>
  IN IF SzLT(MaxSize, size) THEN [err |-> "TooLarge"]
     ELSE IF ~long /\ Len(b2) > HALF THEN [err |-> "Overflow"]
     ELSE [err |-> "none", log |-> bi, b1 |-> L0Digest(es, bi, LEN, rz), b2 |-> b2]

(* ======================= L1: reference machine ========================== *)
RCtxInit == [n |-> 0, d |-> <<>>, last |-> NIL, hf |-> HInit, hh |-> HInit, half |-> NIL]
RStepCtx(cx, e, trig) ==
  LET hf1 == HNext(cx.hf, e)
      hh1 == HNext(cx.hh, e)
  IN IF ~trig THEN [cx EXCEPT !.hf = hf1, !.hh = hh1]
     ELSE IF cx.n < LEN - 1
          THEN [n    |-> cx.n + 1, d |-> Append(cx.d, hf1), last |-> NIL, hf |-> HInit,
                hh   |-> IF cx.n + 1 < HALF THEN HInit ELSE hh1,
                half |-> IF cx.n + 1 < HALF THEN NIL ELSE hh1]
          ELSE [cx EXCEPT !.last = hf1, !.hf = hf1, !.hh = hh1, !.half = hh1]
RInit == [size |-> SzZero, roll |-> RollInit, all |-> HInit,
          cx |-> [i \in 0..(NUM - 1) |-> RCtxInit]]
RStep(r, e) ==
  LET roll1 == RollNext(r.roll, e)
      lv    == RollLevel(roll1)
  IN [size |-> SzAdd(r.size, SzOf(1)), roll |-> roll1, all |-> HNext(r.all, e),
      cx   |-> [i \in 0..(NUM - 1) |-> RStepCtx(r.cx[i], e, lv >= i)]]
RStarted(r) == MinOf(NUM, 1 + Cardinality({i \in 0..(NUM - 1) : r.cx[i].n >= 1}))
RECURSIVE RAdj(_, _)
RAdj(r, bi) == IF bi > 0 /\ r.cx[bi].n < HALF THEN RAdj(r, bi - 1) ELSE bi
RBh1(cx, rz) == LET base == IF cx.last # NIL THEN Append(cx.d, cx.last) ELSE cx.d IN
                IF rz THEN base
                ELSE IF Len(base) = LEN THEN [base EXCEPT ![LEN] = cx.hf] ELSE Append(base, cx.hf)
RBh2T(cx, rz) == IF cx.half # NIL
                 THEN Append(SubSeq(cx.d, 1, HALF - 1), IF rz THEN cx.half ELSE cx.hh)
                 ELSE IF rz THEN cx.d ELSE Append(cx.d, cx.hh)
RFinRz(r, trunc, long, rz) ==
  LET en == RStarted(r)
      bi == RAdj(r, MinOf(Guess(r.size), en - 1))
      b2 == IF bi < en - 1
            THEN (IF trunc THEN RBh2T(r.cx[bi + 1], rz) ELSE RBh1(r.cx[bi + 1], rz))
            ELSE IF rz THEN <<>> ELSE <<r.all>>
  IN IF SzLT(MaxSize, r.size) THEN [err |-> "TooLarge"]
     ELSE IF ~long /\ Len(b2) > HALF THEN [err |-> "Overflow"]
     ELSE [err |-> "none", log |-> bi, b1 |-> RBh1(r.cx[bi], rz), b2 |-> b2]
RFin(r, trunc, long) == RFinRz(r, trunc, long, RollIsZero(r.roll))

(* ============ the generator object as the API presents it =============== *)
(* reference state + the declared size; this is what trace validation steps *)
GInit == [ref |-> RInit, fixed |-> NoSize]
GStep(g, e) == [g EXCEPT !.ref = RStep(g.ref, e)]
GSetFixedResult(g, n) == IF SzLT(MaxSize, n) THEN "TooLarge"
                         ELSE IF g.fixed # NoSize /\ g.fixed # n THEN "Mismatch" ELSE "Ok"
GSetFixed(g, n) == IF GSetFixedResult(g, n) = "Ok" THEN [g EXCEPT !.fixed = n] ELSE g
GFin(g, trunc, long) == IF g.fixed # NoSize /\ g.fixed # g.ref.size THEN [err |-> "Mismatch"]
                        ELSE RFin(g.ref, trunc, long)
=============================================================================
