SPECIFICATION Spec
CONSTANTS
  NUM = 4
  LEN = 6
  UNIT = 6
  SB = 4
  K = 3
  MAXRESETS = 1
  FIXEDMODE = TRUE
  SLICES = {2, 3, 7}
  RollInit <- MCRollInit
  RollNext <- MCRollNext
  RollLevel <- MCRollLevel
  RollIsZero <- MCRollIsZero
  HInit <- MCHInit
  HNext <- MCHNext
INVARIANTS Agree SizeOK RangeOK
CONSTRAINT SizeBound
CHECK_DEADLOCK FALSE
