------------------------------ MODULE MCParser ------------------------------
(***************************************************************************)
(* The parser machine accepts exactly the grammar: for EVERY text up to    *)
(* MAXLEN over BYTES, each of the six kinds and both parser variants,      *)
(* PParse (machine) and Parse (declarative grammar) agree on acceptance,   *)
(* on the value and end index when accepted, and on the offending part     *)
(* when rejected.  Also the C14 sentence: the strict parser differs from   *)
(* the default one only by rejecting texts whose raw block hash exceeds    *)
(* the capacity, and under it raw, normalising and dual kinds accept the   *)
(* same texts.  Scaled capacities.                                         *)
(***************************************************************************)
EXTENDS ParserMachine, TLC
CONSTANTS BYTES, MAXLEN
Kinds == {[norm |-> n, long |-> g, dual |-> d] : n \in BOOLEAN, g \in BOOLEAN, d \in BOOLEAN} \ {[norm |-> TRUE, long |-> TRUE, dual |-> TRUE], [norm |-> TRUE, long |-> FALSE, dual |-> TRUE]}
Texts(n) == [1..n -> BYTES]
VARIABLES t, done
Init == t \in UNION {Texts(n) : n \in 0..(MAXLEN - 1)} /\ done = FALSE
RawTooLong(kd, x) ==        \* some raw block hash exceeds the capacity although the default parser accepts
  LET p == Parse([kd EXCEPT !.norm = FALSE, !.dual = FALSE], FALSE, x) IN ~p.ok
Check(x) ==
  /\ \A kd \in Kinds : \A strict \in BOOLEAN :
       LET m == PParse(kd, strict, x)
           d == Parse(kd, strict, x) IN
       /\ Assert(m.ok = d.ok, <<"acceptance", x, kd, strict, m, d>>)
       /\ Assert(m.ok => (m.h = d.h /\ m.end = d.end), <<"value / end", x, kd, strict, m, d>>)
       /\ Assert(~m.ok => m.origin = d.origin, <<"offending part", x, kd, strict, m, d>>)
  /\ \A kd \in Kinds :
       LET s == Parse(kd, TRUE, x)
           f == Parse(kd, FALSE, x) IN
       /\ Assert(s.ok => (f.ok /\ f.h = s.h /\ f.end = s.end), <<"strict accepts a subset with the same result", x, kd>>)
       /\ Assert((f.ok /\ ~s.ok) => RawTooLong(kd, x), <<"strict rejects only over-long raw block hashes", x, kd>>)
  (* the fold forms used on traces agree with the recursive reference forms, from every start *)
  /\ \A i \in 1..(Len(x) + 2) : \A dg \in BOOLEAN :
       Assert(SpanEnd(x, i, dg) = SpanEndRec(x, i, dg), <<"SpanEndDefsAgree", x, i, dg>>)
  /\ \A base \in 0..Len(x) : \A n \in {1, CAP2S, CAP1} : \A nm \in BOOLEAN : \A st \in BOOLEAN :
       Assert(PBlockHash(x, base, n, nm, st) = PBlockHashRec(x, base, n, nm, st), <<"PBlockHashDefsAgree", x, base, n, nm, st>>)
  /\ \A g \in BOOLEAN :
       LET acc(n, d) == Parse([norm |-> n, long |-> g, dual |-> d], TRUE, x).ok IN
       Assert(acc(FALSE, FALSE) = acc(TRUE, FALSE) /\ acc(FALSE, FALSE) = acc(FALSE, TRUE), <<"under strict all kinds accept the same texts", x, g>>)
(* one more byte: the successors of a text are its extensions, checked in the action *)
Next == ~done /\ \E c \in BYTES : t' = Append(t, c) /\ done' = TRUE /\ Check(Append(t, c)) /\ (Len(t) = 0 => Check(<<>>))
Spec == Init /\ [][Next]_<<t, done>>
=============================================================================
