---------------------------- MODULE BitParallel ----------------------------
(***************************************************************************)
(* The bit-parallel kernels of position_array.rs as machines over W-bit    *)
(* words (C08, C09, C17):                                                  *)
(*   PA          position array: per symbol the mask of its positions      *)
(*   Hyyro*      the LLCS recurrence  p = e & v; v = (v + p) | (v - p)     *)
(*   Scan*       the backward shift-and scan with Boyer-Moore-like skip    *)
(* Model-checked against Lcs / Common of Compare.tla for ALL pairs of      *)
(* strings up to the word width (MCBitParallel).                           *)
(***************************************************************************)
EXTENDS Compare, Bitwise
CONSTANTS W,              \* word width (64)
          SYMS            \* alphabet (0..63)
WM == 2^W

RECURSIVE MaskAcc(_, _, _)
MaskAcc(a, c, i) == IF i = 0 THEN 0
                    ELSE MaskAcc(a, c, i - 1) + (IF a[i] = c THEN 2^(i - 1) ELSE 0)
PA(a) == [c \in SYMS |-> MaskAcc(a, c, Len(a))]                 \* new() + init_from_partial
(* re-initialisation ORs the new bits into whatever is there unless it is cleared first *)
PAOrInto(old, a) == [c \in SYMS |-> old[c] | MaskAcc(a, c, Len(a))]
PAClear == [c \in SYMS |-> 0]

RECURSIVE Popcount(_)
Popcount(x) == IF x = 0 THEN 0 ELSE (x % 2) + Popcount(x \div 2)
HyyroStep(v, e) == LET p == e & v IN ((v + p) % WM) | (v - p)
RECURSIVE HyyroRun(_, _, _, _)
HyyroRun(pa, b, j, v) == IF j > Len(b) THEN v ELSE HyyroRun(pa, b, j + 1, HyyroStep(v, pa[b[j]]))
BPDist(a, b) == Len(a) + Len(b) - 2 * (W - Popcount(HyyroRun(PA(a), b, 1, WM - 1)))
(* Hyyro's column invariant: after j symbols of b the zero bits of v below bit i count
   Lcs(a[1..i], b[1..j]) *)
ZerosBelow(v, i) == i - Popcount(v % (2^i))
ColumnInvariant(a, b) ==
  \A j \in 0..Len(b) : \A i \in 0..Len(a) :
    ZerosBelow(HyyroRun(PA(a), SubSeq(b, 1, j), 1, WM - 1), i) = Lcs(SubSeq(a, 1, i), SubSeq(b, 1, j))

(* l is 0-based as in the code: other[l] is b[l + 1] *)
RECURSIVE ScanInner(_, _, _, _, _), ScanOuter(_, _, _)
ScanInner(pa, b, l, d, r) ==
  IF d = 0 THEN [found |-> FALSE, l |-> l]
  ELSE LET l1 == l + 1
           d1 == ((d * 2) % WM) & pa[b[l1 + 1]]
       IN IF l1 = r /\ d1 # 0 THEN [found |-> TRUE, l |-> l1] ELSE ScanInner(pa, b, l1, d1, r)
ScanOuter(pa, b, l) ==
  LET res == ScanInner(pa, b, l, pa[b[l + 1]], l + WIN - 1) IN
  IF res.found THEN TRUE
  ELSE IF res.l < WIN THEN FALSE
  ELSE ScanOuter(pa, b, res.l - WIN)
BPCommonPA(pa, lena, b) == IF lena < WIN \/ Len(b) < WIN THEN FALSE ELSE ScanOuter(pa, b, Len(b) - WIN)
BPCommon(a, b) == BPCommonPA(PA(a), Len(a), b)

(* validity / equivalence of a position array (position_array.rs is_valid, is_equiv) *)
Bit(x, i) == (x \div 2^i) % 2
PAValid(pa, len) == /\ len <= W
                    /\ \A c1, c2 \in SYMS : c1 # c2 => (pa[c1] & pa[c2]) = 0
                    /\ \A i \in 0..(W - 1) : (\E c \in SYMS : Bit(pa[c], i) = 1) <=> i < len
(* no symbol occupies MAXRUN + 1 consecutive positions *)
PANormalized(pa) == \A c \in SYMS : \A i \in 0..(W - MAXRUN - 1) :
                      \E d \in 0..MAXRUN : Bit(pa[c], i + d) = 0
PAEquiv(pa, len, s) == len = Len(s) /\ \A i \in 1..Len(s) : (pa[s[i]] \div 2^(i - 1)) % 2 = 1
=============================================================================
