SPECIFICATION Spec
CONSTANTS
  MAXRUN = 3
  WIN = 3
  FULL = 8
  NUMBS = 8
  SYMS = {0, 1}
  MAXLEN = 7
  POOL <- NoPool
  MODE = "strings"
CHECK_DEADLOCK FALSE
