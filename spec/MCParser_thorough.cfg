SPECIFICATION Spec
CONSTANTS
  MAXRUN = 2
  NUMBS = 31
  CAP1 = 3
  CAP2S = 2
  CAP2L = 3
  BYTES = {51, 54, 48, 58, 44, 65, 66, 33}
  MAXLEN = 7
CHECK_DEADLOCK FALSE
