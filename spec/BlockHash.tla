----------------------------- MODULE BlockHash -----------------------------
(***************************************************************************)
(* Block hashes as sequences of symbol values 0..63, and normalisation     *)
(* (C06): every run of more than MAXRUN identical symbols is replaced by   *)
(* exactly MAXRUN of them; nothing else changes.                           *)
(***************************************************************************)
EXTENDS Integers, Sequences
CONSTANT MAXRUN            \* 3

(* position i of s is kept by run collapsing iff it is among the first MAXRUN symbols of its run,
   i.e. iff it is NOT preceded by MAXRUN symbols equal to it *)
Keep(s, i) == ~(i > MAXRUN /\ \A d \in 1..MAXRUN : s[i - d] = s[i])
IsNormalized(s) == \A i \in 1..Len(s) : Keep(s, i)
(* declarative, and linear for TLC (SelectSeq is evaluated natively): the kept positions in order *)
Normalize(s) ==
  LET kept == SelectSeq([i \in 1..Len(s) |-> i], LAMBDA i : Keep(s, i)) IN
  [j \in 1..Len(kept) |-> s[kept[j]]]

(* the same two notions by recursion over the string, as first written; kept as the reference the
   definitions above are model-checked against (MCDual: NormalizeDefsAgree), not used on traces:
   TLC's evaluation of a recursion of depth n costs far more than n steps for n in the thousands *)
RECURSIVE RunEndingAt(_, _)
RunEndingAt(s, i) == IF i = 1 \/ s[i] # s[i - 1] THEN 1 ELSE 1 + RunEndingAt(s, i - 1)
IsNormalizedRec(s) == \A i \in 1..Len(s) : RunEndingAt(s, i) <= MAXRUN
RECURSIVE NormAcc(_, _, _, _)
NormAcc(s, i, run, acc) ==              \* run = length of the run ending at i-1 (0 if i = 1)
  IF i > Len(s) THEN acc
  ELSE LET r == IF i > 1 /\ s[i] = s[i - 1] THEN run + 1 ELSE 1 IN
       NormAcc(s, i + 1, r, IF r <= MAXRUN THEN Append(acc, s[i]) ELSE acc)
NormalizeRec(s) == NormAcc(s, 1, 0, <<>>)

(* a fuzzy hash value: [k |-> block size index, a |-> block hash 1, b |-> block hash 2] *)
NormalizeHash(h) == [k |-> h.k, a |-> Normalize(h.a), b |-> Normalize(h.b)]
IsNormalizedHash(h) == IsNormalized(h.a) /\ IsNormalized(h.b)
=============================================================================
