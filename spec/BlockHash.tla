----------------------------- MODULE BlockHash -----------------------------
(***************************************************************************)
(* Block hashes as sequences of symbol values 0..63, and normalisation     *)
(* (C06): every run of more than MAXRUN identical symbols is replaced by   *)
(* exactly MAXRUN of them; nothing else changes.                           *)
(***************************************************************************)
EXTENDS Integers, Sequences
CONSTANT MAXRUN            \* 3

(* length of the run of equal symbols ending at position i *)
RECURSIVE RunEndingAt(_, _)
RunEndingAt(s, i) == IF i = 1 \/ s[i] # s[i - 1] THEN 1 ELSE 1 + RunEndingAt(s, i - 1)
IsNormalized(s) == \A i \in 1..Len(s) : RunEndingAt(s, i) <= MAXRUN
(* declarative: keep exactly the positions that are among the first MAXRUN of their run *)
RECURSIVE NormAcc(_, _, _, _)
NormAcc(s, i, run, acc) ==              \* run = length of the run ending at i-1 (0 if i = 1)
  IF i > Len(s) THEN acc
  ELSE LET r == IF i > 1 /\ s[i] = s[i - 1] THEN run + 1 ELSE 1 IN
       NormAcc(s, i + 1, r, IF r <= MAXRUN THEN Append(acc, s[i]) ELSE acc)
Normalize(s) == NormAcc(s, 1, 0, <<>>)

(* a fuzzy hash value: [k |-> block size index, a |-> block hash 1, b |-> block hash 2] *)
NormalizeHash(h) == [k |-> h.k, a |-> Normalize(h.a), b |-> Normalize(h.b)]
IsNormalizedHash(h) == IsNormalized(h.a) /\ IsNormalized(h.b)
=============================================================================
