SPECIFICATION Spec
CONSTANTS
  MAXRUN = 3
  RUNMAX = 4
  CAP = 12
  RLECAP = 3
  SYMS = {0, 1}
  DEEP = FALSE
CHECK_DEADLOCK FALSE
