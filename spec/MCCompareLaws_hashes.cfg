SPECIFICATION Spec
CONSTANTS
  MAXRUN = 3
  WIN = 3
  FULL = 8
  NUMBS = 8
  SYMS = {0, 1}
  MAXLEN = 0
  POOL <- MCPool
  MODE = "hashes"
CHECK_DEADLOCK FALSE
