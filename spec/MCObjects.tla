----------------------------- MODULE MCObjects -----------------------------
(***************************************************************************)
(* For EVERY valid source and EVERY valid destination (whatever it held    *)
(* before) at scaled capacities: each writing operation yields a valid     *)
(* representation that holds the promised abstract value; narrowing fails  *)
(* exactly when the source is longer than the short capacity and then      *)
(* leaves the destination untouched.                                       *)
(***************************************************************************)
EXTENDS Objects, TLC
CONSTANTS HALF
Strs(n) == UNION {[1..m -> 0..(NSYM - 1)] : m \in 0..n}
VARIABLES s, done
Init == s \in Strs(CAP) /\ done = FALSE
Check(x) ==
  /\ LET r == NormalizeInPlace(Of(x, CAP)) IN
     Assert(ValidRep(r, CAP) /\ Abs(r) = Normalize(x), <<"normalize in place", x, r>>)
  /\ \A y \in Strs(CAP) :                                   \* y: what the destination held before
       /\ (Len(x) <= HALF =>
             LET r == IntoMutLong(Of(x, HALF), Of(y, CAP), HALF) IN
             Assert(ValidRep(r, CAP) /\ Abs(r) = x, <<"into_mut_long_form", x, y, r>>))
       /\ (Len(y) <= HALF =>
             LET t == TryIntoMutShort(Of(x, CAP), Of(y, HALF), HALF) IN
             Assert(/\ t.ok = (Len(x) <= HALF) /\ ValidRep(t.r, HALF)
                    /\ Abs(t.r) = (IF t.ok THEN x ELSE y) /\ (~t.ok => t.r = Of(y, HALF)), <<"try_into_mut_short", x, y, t>>))
       /\ LET dirty == CompressInto(y, FreshDual(CAP, RLECAP), CAP, RLECAP)      \* a dual that held y
              d == CompressInto(x, dirty, CAP, RLECAP) IN
          /\ Assert(ValidDual(d, CAP, RLECAP) /\ Abs(d) = Normalize(x), <<"init_from_raw_form into a used dual", x, y, d>>)
          /\ Assert(d = CompressInto(x, FreshDual(CAP, RLECAP), CAP, RLECAP), <<"same bytes as a fresh dual (Eq / Hash are memory compares)", x, y>>)
          /\ LET r == ExpandInto(d, Of(y, CAP), CAP) IN
             Assert(ValidRep(r, CAP) /\ Abs(r) = x, <<"into_mut_raw_form (dual) into a used raw object", x, y, r>>)
Next == ~done /\ done' = TRUE /\ s' = s /\ Check(s)
Spec == Init /\ [][Next]_<<s, done>>
=============================================================================
