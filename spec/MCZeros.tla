------------------------------ MODULE MCZeros ------------------------------
(***************************************************************************)
(* Lemma behind the C13 hook, at REAL constants: the reference state after *)
(* n zero bytes is ZerosState(n) - nothing but the size and the FNV states *)
(* (period 16 on zero bytes) changes.  Checked for n = 0..MAXN.            *)
(***************************************************************************)
EXTENDS GenReal
CONSTANT MAXN
VARIABLES r, n
Init == r = G!RInit /\ n = 0
Next == n < MAXN /\ r' = G!RStep(r, 0) /\ n' = n + 1
Spec == Init /\ [][Next]_<<r, n>>
ZerosLemma == r = ZerosState(G!SzOf(n)).ref
Period16 == Fnv6Step(Fnv6Step(Fnv6Step(Fnv6Step(Fnv6Step(Fnv6Step(Fnv6Step(Fnv6Step(
            Fnv6Step(Fnv6Step(Fnv6Step(Fnv6Step(Fnv6Step(Fnv6Step(Fnv6Step(Fnv6Step(
              r.all, 0), 0), 0), 0), 0), 0), 0), 0), 0), 0), 0), 0), 0), 0), 0), 0) = r.all
=============================================================================
