--------------------------- MODULE MCBitParallel ---------------------------
(***************************************************************************)
(* For ALL pairs of strings of length 0..W over SYMS: the bit-parallel     *)
(* distance equals the DP distance (both orders), Hyyro's column invariant *)
(* holds after every symbol, the scan answers exactly "share WIN           *)
(* consecutive symbols".  One initial state per first string (parallel),   *)
(* one successor per second string; the checks are evaluated inside the    *)
(* action (TLC caches lazy values only there).                             *)
(***************************************************************************)
EXTENDS BitParallel, TLC
CONSTANT DEEP            \* TRUE: also the column invariant (cubic)
Strs == UNION {[1..n -> SYMS] : n \in 0..W}
VARIABLES a, b
Init == a \in Strs /\ b = <<-1>>
Check(x, y) ==
  /\ Assert(BPDist(x, y) = Dist(x, y), <<"edit distance", x, y, BPDist(x, y), Dist(x, y)>>)
  /\ Assert(BPDist(y, x) = Dist(x, y), <<"edit distance (swapped)", x, y>>)
  /\ Assert(BPCommon(x, y) = Common(x, y), <<"common substring", x, y, BPCommon(x, y)>>)
  /\ (DEEP => Assert(ColumnInvariant(x, y), <<"column invariant", x, y>>))
Next == b = <<-1>> /\ \E y \in Strs : b' = y /\ a' = a /\ Check(a, y)
Spec == Init /\ [][Next]_<<a, b>>
=============================================================================
