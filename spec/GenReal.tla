------------------------------ MODULE GenReal ------------------------------
(***************************************************************************)
(* CtphRef at the real constants of ssdeep: 31 block sizes 3 * 2^n, 64     *)
(* symbols per block hash, 7-byte rolling window, 6-bit FNV-1 piece hash.  *)
(* An event is a byte 0..255.  The rolling state is the window itself; the *)
(* trigger level and the zero flag are evaluated by the DEFINITION         *)
(* (RollDef over the last seven bytes), never by the incremental machine.  *)
(***************************************************************************)
EXTENDS Hashes, TLC
RealRollInit == [w |-> WinInit, lv |-> -1, z |-> TRUE]
RealRollNext(r, c) == LET w == WinPush(r.w, c)
                          v == TLCEval(RollDef(w))
                      IN [w |-> w, lv |-> TriggerLevel(v), z |-> WIsZero(v)]
RealRollLevel(r) == r.lv
RealRollIsZero(r) == r.z
G == INSTANCE CtphRef WITH NUM <- 31, LEN <- 64, UNIT <- 192, SB <- 16777216,
       RollInit <- RealRollInit, RollNext <- RealRollNext, RollLevel <- RealRollLevel,
       RollIsZero <- RealRollIsZero, HInit <- Fnv6Init, HNext <- Fnv6Step

(* L2 (implementation-shaped engine) at the same real constants, for lock-step validation *)
I == INSTANCE Generator WITH NUM <- 31, LEN <- 64, UNIT <- 192, SB <- 16777216,
       RollInit <- RealRollInit, RollNext <- RealRollNext, RollLevel <- RealRollLevel,
       RollIsZero <- RealRollIsZero, HInit <- Fnv6Init, HNext <- Fnv6Step

(* the state a generator has after n zero bytes (n as a size pair): zero   *)
(* bytes never end a piece, the window is all zero, every hash has seen    *)
(* n zero bytes and the 6-bit FNV state has period 16 on zero bytes.       *)
RECURSIVE FnvZeros(_)
FnvZeros(k) == IF k = 0 THEN Fnv6Init ELSE Fnv6Step(FnvZeros(k - 1), 0)
ZerosState(n) ==
  LET z == FnvZeros(n[2] % 16) IN
  [ref |-> [size |-> n, roll |-> RealRollInit, all |-> z,
            cx |-> [i \in 0..30 |-> [G!RCtxInit EXCEPT !.hf = z, !.hh = z]]],
   fixed |-> G!NoSize]
IZerosState(n) ==
  LET z == FnvZeros(n[2] % 16) IN
  [I!IInit EXCEPT !.size = n, !.cx[0] = [I!ICtxNew EXCEPT !.hf = z, !.hh = z]]
=============================================================================
