SPECIFICATION Spec
CONSTANTS
  LB = 16
  WINDOW = 7
  SHIFT = 5
  MAXN = 700
INVARIANTS ZerosLemma Period16
CHECK_DEADLOCK FALSE
