---------------------------- MODULE GenGenerator ----------------------------
(***************************************************************************)
(* The generator's call protocol as a GENERATOR of histories (spec -> code *)
(* direction for C12 / C03, like GenObj and GenTarget).  Only what is      *)
(* needed to AIM is tracked: the number of bytes fed so far and the        *)
(* declared size, both as <<hi, lo>> pairs in base 2^24; the hash          *)
(* itself is judged afterwards by TraceGen (L1) on the recorded trace.     *)
(* TLC (-simulate) chooses, step by step:                                  *)
(*   start     a new generator, or one positioned by the zero-prefix hook  *)
(*             a few bytes below / on / above a block size border           *)
(*   feed      a chunk DESCRIPTOR (n trigger words of a level, n zero      *)
(*             bytes, n filler words) through one of the update forms --   *)
(*             the check materialises descriptors with words from the      *)
(*             corpus (input shaping only)                                 *)
(*   declare   a size chosen in relation to the abstract state: exactly    *)
(*             what has been fed, what WILL have been fed after the next   *)
(*             chunk, one less / one more, the previous declaration again, *)
(*             a different one, the 192 GiB limit and one above it         *)
(*   finalize, reset, clone-and-continue-on-the-clone                      *)
(***************************************************************************)
EXTENDS Integers, Sequences, TLC, Json
CONSTANT DEPTH
VARIABLES fed, decl, cur, hist
SB == 16777216                                   \* 2^24
SzOf(n) == <<n \div SB, n % SB>>
SzAdd(a, n) == LET s == a[2] + n IN <<a[1] + (s \div SB), s % SB>>       \* n < 2^24
SzSub(a, n) == IF a[2] >= n THEN <<a[1], a[2] - n>> ELSE IF a[1] > 0 THEN <<a[1] - 1, a[2] + SB - n>> ELSE <<0, 0>>
None == <<-1, -1>>
Limit == <<12288, 0>>                            \* 192 GiB = 12288 * 2^24
(* 192 * 2^k as a pair, k = 0..30 *)
Border(k) == IF k <= 16 THEN SzOf(192 * (2 ^ k)) ELSE IF k = 17 THEN <<1, 8388608>> ELSE <<3 * (2 ^ (k - 18)), 0>>

(* chunk descriptors: <<kind, level, count>>; bytes = 7 * count for words, count for zeros *)
Chunks == {<<"word", lv, c>> : lv \in {0, 1, 2, 5, 8, 12, 16, 20, 24, 29, 30}, c \in {1, 31, 32, 33, 64, 65}}
          \cup {<<"zeros", 0, c>> : c \in {0, 1, 6, 7, 8, 100}}
          \cup {<<"none", 0, c>> : c \in {1, 10}}
          \cup {<<"maxroll", 0, 1>>, <<"zeroroll", 0, 1>>}
Bytes(ch) == IF ch[1] = "zeros" THEN ch[3] ELSE 7 * ch[3]

Init == fed = None /\ decl = None /\ cur = 0 /\ hist = <<>>
Start == \E w \in {RandomElement(1..4)} : \E k \in {RandomElement(0..30)} : \E d \in {RandomElement({0, 1, 7, 300, 455})} : \E up \in {RandomElement(BOOLEAN)} :
           LET n == IF w = 1 THEN <<0, 0>> ELSE IF up THEN SzAdd(Border(k), d) ELSE SzSub(Border(k), d) IN
           /\ fed' = n /\ decl' = None /\ cur' = 0
           /\ hist' = Append(hist, IF w = 1 THEN [ev |-> "new", g |-> 0] ELSE [ev |-> "zeros", g |-> 0, n |-> n])
Feed == \E ch \in {RandomElement(Chunks)} : \E f \in {RandomElement(0..5)} :
          /\ fed' = SzAdd(fed, Bytes(ch)) /\ UNCHANGED <<decl, cur>>
          /\ hist' = Append(hist, [ev |-> "upd", g |-> cur, f |-> f, chunk |-> ch])
(* declare-then-feed: the declaration is what the size WILL be after the chunk that follows *)
DeclareAhead == \E ch \in {RandomElement(Chunks)} : \E f \in {RandomElement(0..5)} : \E off \in {RandomElement({0, 0, 0, 1})} :
          LET target == SzAdd(SzAdd(fed, Bytes(ch)), off) IN
          /\ fed' = SzAdd(fed, Bytes(ch)) /\ decl' = (IF decl = None THEN target ELSE decl) /\ UNCHANGED cur
          /\ hist' = Append(Append(hist, [ev |-> "fix", g |-> cur, n |-> target, usz |-> FALSE]),
                            [ev |-> "upd", g |-> cur, f |-> f, chunk |-> ch])
Declare == \E w \in {RandomElement(1..8)} : \E usz \in {RandomElement(BOOLEAN)} :
          LET n == CASE w = 1 -> fed
                     [] w = 2 -> SzAdd(fed, 1)
                     [] w = 3 -> SzSub(fed, 1)
                     [] w = 4 -> IF decl = None THEN fed ELSE decl                 \* the same declaration again
                     [] w = 5 -> IF decl = None THEN SzAdd(fed, 7) ELSE SzAdd(decl, 1)   \* a different one
                     [] w = 6 -> Limit
                     [] w = 7 -> SzAdd(Limit, 1)
                     [] OTHER -> <<20000, 5>>                                     \* far above the limit
              accepted == decl = None /\ (n[1] < 12288 \/ n = Limit) IN
          /\ decl' = (IF accepted THEN n ELSE decl) /\ UNCHANGED <<fed, cur>>
          /\ hist' = Append(hist, [ev |-> "fix", g |-> cur, n |-> n, usz |-> usz])
Fin == /\ UNCHANGED <<fed, decl, cur>> /\ hist' = Append(hist, [ev |-> "fin", g |-> cur])
Reset == /\ fed' = <<0, 0>> /\ decl' = None /\ UNCHANGED cur
         /\ hist' = Append(Append(hist, [ev |-> "reset", g |-> cur]), [ev |-> "fin", g |-> cur])
(* clone, observe the original once more, continue on the clone *)
Clone == /\ UNCHANGED <<fed, decl>> /\ cur' = 1 - cur
         /\ hist' = Append(Append(hist, [ev |-> "clone", g |-> cur, to |-> 1 - cur]), [ev |-> "fin", g |-> cur])
Next == /\ Len(hist) < DEPTH
        /\ IF fed = None THEN Start
           ELSE \E w \in {RandomElement(1..16)} :
                  CASE w <= 6 -> Feed
                    [] w <= 8 -> DeclareAhead
                    [] w <= 11 -> Declare
                    [] w <= 13 -> Fin
                    [] w = 14 -> Reset
                    [] w = 15 -> Clone
                    [] OTHER -> Start
Spec == Init /\ [][Next]_<<fed, decl, cur, hist>>
Emit == Len(hist) >= DEPTH => PrintT("REPLAY " \o ToJson(hist))
=============================================================================
