SPECIFICATION Spec
CONSTANTS
  BUF = 3
  N = 7
  KINDS = {"Interrupted", "Other"}
INVARIANTS FedIsDelivered AgreesWithWalk FailClosed
CHECK_DEADLOCK FALSE
