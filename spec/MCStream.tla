------------------------------ MODULE MCStream ------------------------------
(***************************************************************************)
(* The reader loop as a machine (Read / Feed / Fail / Finish), explored    *)
(* for EVERY reader behaviour over a payload of N bytes with a scaled      *)
(* buffer: any short-read pattern, an error of any kind at any read, a     *)
(* premature end of file.  Invariants: what was fed is always exactly the  *)
(* delivered prefix; an error is returned as that error and no hash is     *)
(* produced; nothing is read after an error or EOF; the outcome agrees     *)
(* with the declarative Walk over the script the reader followed.          *)
(***************************************************************************)
EXTENDS Stream, TLC
CONSTANTS N, KINDS
VARIABLES pos, fed, script, state, result
vars == <<pos, fed, script, state, result>>
Init == pos = 0 /\ fed = 0 /\ script = <<>> /\ state = "reading" /\ result = <<>>
ReadData == /\ state = "reading" /\ pos < N
            /\ \E k \in 1..(N + 1) :
                 LET got == MinOf3(k, BUF, N - pos) IN
                 /\ script' = Append(script, <<"d", k>>) /\ pos' = pos + got
                 /\ fed' = fed + got                            \* generator.update(&buffer[0..len])
            /\ UNCHANGED <<state, result>>
ReadEof == /\ state = "reading"
           /\ script' = Append(script, IF pos = N THEN <<"d", 1>> ELSE <<"z">>)
           /\ state' = "done" /\ result' = <<"hash", fed>> /\ UNCHANGED <<pos, fed>>
ReadErr == /\ state = "reading"
           /\ \E kd \in KINDS : /\ script' = Append(script, <<"e", kd, Len(script)>>)
                                /\ result' = <<"io", kd, Len(script)>>
           /\ state' = "done" /\ UNCHANGED <<pos, fed>>
Next == ReadData \/ ReadEof \/ ReadErr
Spec == Init /\ [][Next]_vars
FedIsDelivered == fed = pos
AgreesWithWalk ==
  state = "done" =>
    LET w == Walk(script, 1, 0, N) IN
    /\ w.reads = Len(script)
    /\ IF w.io THEN result = <<"io", w.kind, w.id>> ELSE result = <<"hash", w.pos>>
FailClosed == (state = "done" /\ \E i \in 1..Len(script) : script[i][1] = "e") => result[1] = "io"
=============================================================================
