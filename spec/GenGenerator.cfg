SPECIFICATION Spec
INVARIANT Emit
CONSTANTS DEPTH = 30
CHECK_DEADLOCK FALSE
