SPECIFICATION Spec
CONSTANTS
  MAXRUN = 3
  WIN = 3
  FULL = 5
  NUMBS = 31
  W = 5
  SYMS = {0, 1, 2}
INVARIANTS FreshEq Valid EquivOnlyLast NormAgree
CHECK_DEADLOCK FALSE
