SPECIFICATION Spec
CONSTANTS
  MAXRUN = 3
  WIN = 3
  FULL = 8
  NUMBS = 31
  W = 8
  SYMS = {0, 1}
  DEEP = FALSE
CHECK_DEADLOCK FALSE
