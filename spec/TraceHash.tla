----------------------------- MODULE TraceHash -----------------------------
(***************************************************************************)
(* Trace validation of the exposed hash primitives (C19).                  *)
(*   hp      a byte string with RollingHash::value() and                   *)
(*           PartialFNVHash::value() recorded after EVERY prefix, and the  *)
(*           final values of every update form on random splits.  The spec *)
(*           recomputes the rolling hash from scratch over the trailing    *)
(*           window (the definition) and carries the full 32-bit FNV-1     *)
(*           state, one byte per step.                                     *)
(*   fnvrow  the complete transition row (256 bytes) of one of the 64      *)
(*           states of the partial FNV hash.                               *)
(***************************************************************************)
EXTENDS Hashes, TraceBase
VARIABLES l, j, win, f32
vars == <<l, j, win, f32>>
Ev(k) == l <= NRec /\ Rec[l].ev = k
E == Rec[l]
Init == l = 1 /\ j = 0 /\ win = WinInit /\ f32 = Fnv32Init
AllEq(obj, v) == \A f \in DOMAIN obj : obj[f] = v
EvHp == /\ Ev("hp")
        /\ Expect(E.panics = 0, <<l, "hp-panic">>)
        /\ IF Len(E.d) = 0
           THEN /\ Expect(AllEq(E.rforms, RollDef(WinInit)) /\ AllEq(E.fforms, Fnv32Low6(Fnv32Init)), <<l, "hp-empty">>)
                /\ l' = l + 1 /\ UNCHANGED <<j, win, f32>>
           ELSE LET c  == E.d[j + 1]
                    w1 == WinPush(win, c)
                    r  == RollDef(w1)
                    f1 == Fnv32Step(f32, c)
                IN /\ Expect(E.roll[j + 1] = r, <<l, "hp-roll", j, r>>)
                   /\ Expect(E.fnv[j + 1] = Fnv32Low6(f1), <<l, "hp-fnv", j, Fnv32Low6(f1)>>)
                   /\ IF j + 1 = Len(E.d)
                      THEN /\ Expect(AllEq(E.rforms, r) /\ AllEq(E.fforms, Fnv32Low6(f1))
                                     /\ "slice" \in DOMAIN E.rforms /\ "slice" \in DOMAIN E.fforms, <<l, "hp-forms", r, Fnv32Low6(f1)>>)
                           /\ l' = l + 1 /\ j' = 0 /\ win' = WinInit /\ f32' = Fnv32Init
                      ELSE l' = l /\ j' = j + 1 /\ win' = w1 /\ f32' = f1
(* one slice of more than 2^32 bytes, all zero except the last seven: the value is that of the
   window holding those seven bytes *)
RECURSIVE PushAll(_, _, _)
PushAll(w, s, i) == IF i > Len(s) THEN w ELSE PushAll(WinPush(w, s[i]), s, i + 1)
EvHpBig == /\ Ev("hpbig")
           /\ Expect(E.panics = 0 /\ Len(E.tail) = 7 /\ AllEq(E.rforms, RollDef(PushAll(WinInit, E.tail, 1)))
                     /\ "slice" \in DOMAIN E.rforms, <<l, "hpbig">>)
           /\ l' = l + 1 /\ UNCHANGED <<j, win, f32>>
EvFnvRow == /\ Ev("fnvrow")
            /\ Expect(E.s \in 0..63 /\ Len(E.row) = 256 /\ \A c \in 0..255 : E.row[c + 1] = Fnv6Step(E.s, c), <<l, "fnvrow", E.s>>)
            /\ l' = l + 1 /\ UNCHANGED <<j, win, f32>>
EvFnvInit == /\ Ev("fnvinit")
             /\ Expect(E.v = Fnv6Init /\ E.states = 64, <<l, "fnvinit">>)
             /\ l' = l + 1 /\ UNCHANGED <<j, win, f32>>
Next == EvHp \/ EvHpBig \/ EvFnvRow \/ EvFnvInit
Spec == Init /\ [][Next]_vars
Progress == Mark(l)
=============================================================================
