SPECIFICATION Spec
CONSTANTS
  NUM = 3
  LEN = 6
  UNIT = 6
  SB = 4
  K = 2
  MAXLEN = 10
  RollInit <- MCRollInit
  RollNext <- MCRollNext
  RollLevel <- MCRollLevel
  RollIsZero <- MCRollIsZero
  HInit <- MCHInit
  HNext <- MCHNext
INVARIANTS RefIsDef SizeIsLen
CHECK_DEADLOCK FALSE
