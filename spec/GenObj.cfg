SPECIFICATION Spec
INVARIANTS TypeOK Emit
CONSTANTS MAXRUN = 3 NUMBS = 31 CAP1 = 64 CAP2S = 32 CAP2L = 64 DEPTH = 36
CHECK_DEADLOCK FALSE
