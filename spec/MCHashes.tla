------------------------------ MODULE MCHashes ------------------------------
(***************************************************************************)
(* C19 at scaled constants (limb width LB, words of 2*LB bits):            *)
(*  - the limb arithmetic of Word32 agrees with plain arithmetic modulo    *)
(*    2^(2*LB) on the whole domain (WordLemma, checked in the first step); *)
(*  - after EVERY byte sequence up to MAXLEN over BYTES the incremental    *)
(*    rolling hash (rolling_hash.rs) equals the definition over the last   *)
(*    WINDOW bytes - i.e. it depends on the window only.                   *)
(* With FNVGRID = TRUE (real LB = 16): Fnv6Step(h mod 64, c) equals the    *)
(* low six bits of the 32-bit FNV-1 step, on a grid of 32-bit states.      *)
(***************************************************************************)
EXTENDS Hashes, TLC
CONSTANTS BYTES, MAXLEN, FNVGRID
WB == LM * LM
VARIABLES inc, win, n
Init == inc = RollIncInit /\ win = WinInit /\ n = 0
WordLemma ==
  \A a \in 0..(WB - 1) : \A b \in 0..(WB - 1) :
    /\ WToNat(WAdd(WOf(a), WOf(b))) = (a + b) % WB
    /\ WToNat(WSub(WOf(a), WOf(b))) = (a - b + WB) % WB
    /\ WToNat(WShl(WOf(a), SHIFT)) = (a * 2^SHIFT) % WB
    /\ WMod3(WOf(a)) = a % 3
    /\ (a # 0 => \E k \in 0..(2 * LB) : WNtz(WOf(a)) = k /\ a % (2^k) = 0 /\ (a \div 2^k) % 2 = 1)
    /\ WIsZero(WOf(a)) = (a = 0)
FnvLemma ==
  \A hi \in {0, 1, 255, 256, 4660, 10242, 32768, 65535} : \A lo \in 0..4095 : \A c \in {0, 1, 63, 64, 65, 127, 128, 200, 255} :
    LET x == (lo * 16 + hi) % 65536 IN Fnv6Step(x % 64, c) = Fnv32Low6(Fnv32Step(<<hi, x>>, c))
Next == /\ n < MAXLEN
        /\ \E c \in BYTES : inc' = RollIncStep(inc, c) /\ win' = WinPush(win, c)
        /\ n' = n + 1
        /\ (n = 0 => Assert(IF FNVGRID THEN FnvLemma ELSE WordLemma, "lemma"))
Spec == Init /\ [][Next]_<<inc, win, n>>
WindowOnly == RollIncValue(inc) = RollDef(win)
IncFields == /\ inc.h1 = WOf(RollH1(win, WINDOW)) /\ inc.h2 = WOf(RollH2(win, WINDOW))
             /\ inc.h3 = RollH3(win, WINDOW)
=============================================================================
