SPECIFICATION Spec
CONSTANTS
  MAXRUN = 3
  WIN = 3
  FULL = 5
  NUMBS = 31
  W = 5
  SYMS = {0, 1, 2}
  DEEP = TRUE
CHECK_DEADLOCK FALSE
