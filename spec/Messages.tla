----------------------------- MODULE Messages -----------------------------
(***************************************************************************)
(* The texts the error types display.  Not part of any listed property;    *)
(* trace validation reports a disagreement as specification drift.  The    *)
(* point of having them here is that a message is a function of exactly    *)
(* the (kind, origin, offset) the parser machine predicts, so a message    *)
(* built from the wrong accessor shows up.                                 *)
(***************************************************************************)
EXTENDS Integers, Sequences, TLC

ParseKindMsg == [
  BlockHashIsTooLong      |-> "block hash is too long",
  BlockSizeIsEmpty        |-> "block size field is empty",
  BlockSizeStartsWithZero |-> "block size starts with '0'",
  BlockSizeIsInvalid      |-> "block size is not valid",
  BlockSizeIsTooLarge     |-> "block size is too large",
  UnexpectedCharacter     |-> "an unexpected character is encountered",
  UnexpectedEndOfString   |-> "end-of-string is not expected" ]
ParseOriginMsg == [ BlockSize |-> "block size", BlockHash1 |-> "block hash 1", BlockHash2 |-> "block hash 2" ]

ParseErrorMsg(kind, origin, off) ==
  "error occurred while parsing a fuzzy hash (" \o ParseOriginMsg[origin] \o ", at byte offset "
    \o ToString(off) \o "): " \o ParseKindMsg[kind]
(* the two-text entry point says which text (1 = left, 2 = right) *)
ParseErrorEitherMsg(side, kind, origin, off) ==
  "error occurred while parsing fuzzy hash " \o (IF side = "Left" THEN "1" ELSE "2") \o " ("
    \o ParseOriginMsg[origin] \o ", at byte offset " \o ToString(off) \o "): " \o ParseKindMsg[kind]

GeneratorErrorMsg == [
  FixedSizeMismatch |-> "current state mismatches to the fixed size previously set",
  FixedSizeTooLarge |-> "fixed size is too large to generate a fuzzy hash",
  InputSizeTooLarge |-> "input size is too large to generate a fuzzy hash",
  OutputOverflow    |-> "output is too large for specific fuzzy hash variant" ]
GeneratorErrorIsSizeTooLarge == [
  FixedSizeMismatch |-> FALSE, FixedSizeTooLarge |-> TRUE, InputSizeTooLarge |-> TRUE, OutputOverflow |-> FALSE ]

OperationErrorMsg == [
  BlockHashOverflow     |-> "overflow will occur while copying the block hash",
  StringizationOverflow |-> "overflow will occur while converting to the string representation" ]
=============================================================================
