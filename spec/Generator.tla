----------------------------- MODULE Generator -----------------------------
(***************************************************************************)
(* L2: the generator shaped like ffuzzy's generate.rs.                     *)
(*                                                                         *)
(* One operator per critical section of the code; the state mirrors        *)
(* GeneratorInnerData.  POISON models the deliberately partial reset():    *)
(* every cell reset() does not write becomes POISON, an absorbing value    *)
(* that can never equal a reference symbol, so "a stale cell is never      *)
(* read before it is rewritten" is checked as part of Agree.               *)
(***************************************************************************)
EXTENDS CtphRef
POISON == -2
HNextP(h, e) == IF h = POISON THEN POISON ELSE HNext(h, e)

ICtxNew == [idx |-> 0, bh |-> [j \in 1..LEN |-> NIL], half |-> NIL, hf |-> HInit, hh |-> HInit]
(* BlockHashContext::reset(): index, the LAST digest cell, the half char, both hashes *)
ICtxReset(cx) == [idx |-> 0,
                  bh |-> [j \in 1..LEN |-> IF j = LEN THEN NIL
                                           ELSE IF cx.bh[j] = NIL THEN NIL ELSE POISON],
                  half |-> NIL, hf |-> HInit, hh |-> HInit]
(* a context Generator::reset() leaves alone: all content is stale *)
Poisoned(cx) == [idx |-> cx.idx,
                 bh |-> [j \in 1..LEN |-> IF cx.bh[j] = NIL THEN NIL ELSE POISON],
                 half |-> IF cx.half = NIL THEN NIL ELSE POISON, hf |-> POISON, hh |-> POISON]

IInit == [size |-> SzZero, fixed |-> NoSize, eb |-> Borders[0], st |-> 0, en |-> 1,
          lim |-> NUM - 1, mask |-> 0, roll |-> RollInit,
          cx |-> [i \in 0..(NUM - 1) |-> ICtxNew], hl |-> HInit, isl |-> FALSE]
(* Generator::reset() *)
IReset(s) == [s EXCEPT !.size = SzZero, !.fixed = NoSize, !.eb = Borders[0], !.st = 0, !.en = 1,
                       !.lim = NUM - 1, !.mask = 0, !.roll = RollInit, !.isl = FALSE,
                       !.hl = POISON,
                       !.cx = [i \in 0..(NUM - 1) |->
                                 IF i = 0 THEN ICtxReset(s.cx[0]) ELSE Poisoned(s.cx[i])]]
(* set_fixed_input_size(): result and effect *)
ISetFixedResult(s, n) == IF SzLT(MaxSize, n) THEN "TooLarge"
                         ELSE IF s.fixed # NoSize /\ s.fixed # n THEN "Mismatch" ELSE "Ok"
ISetFixed(s, n) == IF ISetFixedResult(s, n) # "Ok" THEN s
                   ELSE [s EXCEPT !.fixed = n, !.lim = MinOf(NUM - 1, Guess(n) + 1)]

(* the body of bh_loop_2 for context i *)
ILevel(s, i) ==
  LET forkHere == s.cx[i].idx = 0
      s1 == IF ~forkHere THEN s
            ELSE IF s.en > s.lim
                 THEN (IF s.lim = NUM - 1 /\ ~s.isl
                       THEN [s EXCEPT !.hl = s.cx[i].hf, !.isl = TRUE] ELSE s)
                 ELSE [s EXCEPT !.cx[i + 1] = [ICtxReset(s.cx[i + 1]) EXCEPT
                                                  !.hf = s.cx[i].hf, !.hh = s.cx[i].hh],
                                !.en = s.en + 1]
      cx  == s1.cx[i]
      cxa == [cx EXCEPT !.bh[cx.idx + 1] = cx.hf, !.half = cx.hh]
  IN IF cx.idx < LEN - 1
     THEN [s1 EXCEPT !.cx[i] = [cxa EXCEPT !.idx = cx.idx + 1, !.hf = HInit,
                                           !.half = IF cx.idx + 1 < HALF THEN NIL ELSE cxa.half,
                                           !.hh = IF cx.idx + 1 < HALF THEN HInit ELSE cxa.hh]]
     ELSE LET s2  == [s1 EXCEPT !.cx[i] = cxa]
              szr == IF s2.fixed = NoSize THEN s2.size ELSE s2.fixed
          IN IF s2.en - s2.st >= 2 /\ SzLT(s2.eb, szr) /\ s2.cx[i + 1].idx >= HALF
             THEN [s2 EXCEPT !.st = s2.st + 1, !.mask = s2.mask + 1, !.eb = SzAdd(s2.eb, s2.eb)]
             ELSE s2
RECURSIVE ILoop(_, _, _)
ILoop(s, i, lv) == LET s1 == ILevel(s, i) IN
                   IF i = lv \/ i + 1 >= s1.en THEN s1 ELSE ILoop(s1, i + 1, lv)
(* one byte through generator_update_template!; the size accounting is the caller's
   (up front for slices, per byte for the other forms) *)
IStep(s, e) ==
  LET roll1 == RollNext(s.roll, e)
      lv    == RollLevel(roll1)
      s1 == [s EXCEPT !.roll = roll1,
                      !.hl = IF s.isl THEN HNextP(s.hl, e) ELSE s.hl,
                      !.cx = [i \in 0..(NUM - 1) |->
                                IF i >= s.st /\ i < s.en
                                THEN [s.cx[i] EXCEPT !.hf = HNextP(@, e), !.hh = HNextP(@, e)]
                                ELSE s.cx[i]]]
  IN IF lv < 0 \/ lv < s1.mask THEN s1 ELSE ILoop(s1, s1.st, lv)

RECURSIVE IAdj(_, _)
IAdj(s, bi) == IF bi > s.st /\ s.cx[bi].idx < HALF THEN IAdj(s, bi - 1) ELSE bi
IBh1(cx, rz) == LET sz   == IF cx.bh[LEN] # NIL THEN cx.idx + 1 ELSE cx.idx
                    base == [j \in 1..sz |-> cx.bh[j]]
                IN IF rz THEN base
                   ELSE IF sz = LEN THEN [base EXCEPT ![LEN] = cx.hf] ELSE Append(base, cx.hf)
IBh2T(cx, rz) == IF cx.half # NIL
                 THEN Append([j \in 1..(HALF - 1) |-> cx.bh[j]], IF rz THEN cx.half ELSE cx.hh)
                 ELSE LET base == [j \in 1..cx.idx |-> cx.bh[j]] IN
                      IF rz THEN base ELSE Append(base, cx.hh)
IFinRz(s, trunc, long, rz) ==
  IF s.fixed # NoSize /\ s.fixed # s.size THEN [err |-> "Mismatch"]
  ELSE IF SzLT(MaxSize, s.size) THEN [err |-> "TooLarge"]
  ELSE LET bi == IAdj(s, MinOf(MaxOf(Guess(s.size), s.st), s.en - 1))
           b2 == IF bi < s.en - 1
                 THEN (IF trunc THEN IBh2T(s.cx[bi + 1], rz) ELSE IBh1(s.cx[bi + 1], rz))
                 ELSE IF rz THEN <<>> ELSE IF bi = 0 THEN <<s.cx[0].hf>> ELSE <<s.hl>>
       IN IF ~long /\ Len(b2) > HALF THEN [err |-> "Overflow"]
          ELSE [err |-> "none", log |-> bi, b1 |-> IBh1(s.cx[bi], rz), b2 |-> b2]
IFin(s, trunc, long) == IFinRz(s, trunc, long, RollIsZero(s.roll))
HasPoison(res) == res.err = "none" /\ (\E j \in 1..Len(res.b1) : res.b1[j] = POISON
                                       \/ \E k \in 1..Len(res.b2) : res.b2[k] = POISON)
=============================================================================
