------------------------------ MODULE Objects ------------------------------
(***************************************************************************)
(* The representation of hash objects and the array-level algorithms that  *)
(* write into EXISTING (dirty) objects (C11, C15).                         *)
(*   block hash rep   [arr : 1..cap -> symbol, len]                        *)
(*   dual rep         [arr, len, rle : 1..rlecap -> RLE byte or 0]         *)
(* Valid = length within capacity, symbols in range, unused tail zero      *)
(* (and: normalised / canonical RLE where the type says so).               *)
(* Each operator is shaped like the code: which cells it writes, which it  *)
(* clears.  MCObjects checks, for EVERY valid source and EVERY valid       *)
(* (dirty) destination, that the result is valid and holds the abstract    *)
(* value the operation promises - an inductive argument that covers all    *)
(* histories.                                                              *)
(***************************************************************************)
EXTENDS Dual
CONSTANTS NSYM            \* symbols are 0..NSYM-1 (64)

Abs(r) == SubSeq(r.arr, 1, r.len)                               \* the string an object holds
Fresh(cap) == [arr |-> [i \in 1..cap |-> 0], len |-> 0]
ValidRep(r, cap) == /\ r.len \in 0..cap /\ DOMAIN r.arr = 1..cap
                    /\ \A i \in 1..cap : r.arr[i] \in 0..(NSYM - 1) /\ (i > r.len => r.arr[i] = 0)
Of(s, cap) == [arr |-> [i \in 1..cap |-> IF i <= Len(s) THEN s[i] ELSE 0], len |-> Len(s)]

(* normalize_block_hash_in_place: compacts in place, then clears the freed tail *)
RECURSIVE NormLoop(_, _, _, _, _, _)
NormLoop(arr, old, i, seq, prev, len) ==
  IF i > old THEN [arr |-> [x \in DOMAIN arr |-> IF x > len /\ x <= old THEN 0 ELSE arr[x]], len |-> len]
  ELSE LET curr == arr[i] IN
       IF curr = prev /\ seq + 1 >= MAXRUN THEN NormLoop(arr, old, i + 1, MAXRUN, prev, len)
       ELSE NormLoop([arr EXCEPT ![len + 1] = curr], old, i + 1, IF curr = prev THEN seq + 1 ELSE 0, curr, len + 1)
NormalizeInPlace(r) == NormLoop(r.arr, r.len, 1, 0, -1, 0)

(* into_mut_long_form: copy the short array into the first half, clear the second half *)
IntoMutLong(src, dst, half) ==
  [arr |-> [i \in DOMAIN dst.arr |-> IF i <= half THEN src.arr[i]
                                     ELSE 0],                     \* blockhash2[HALF..FULL].fill(0)
   len |-> src.len]
(* try_into_mut_short: refuse when too long (destination untouched), else copy the first half *)
TryIntoMutShort(src, dst, half) ==
  IF src.len > half THEN [ok |-> FALSE, r |-> dst]
  ELSE [ok |-> TRUE, r |-> [arr |-> [i \in 1..half |-> src.arr[i]], len |-> src.len]]
(* into_mut_raw_form (plain): the whole array and the length are copied *)
IntoMutSame(src, dst) == src

(* RLE bytes as the code stores them: pos | ((len - 1) << 6); 0 is the terminator (pos >= MAXRUN - 1 >= 1) *)
RleByte(sym) == sym.pos + 64 * (sym.len - 1)
RleSym(b) == [pos |-> b % 64, len |-> (b \div 64) + 1]
RleSyms(rle) == LET n == IF \E i \in DOMAIN rle : rle[i] = 0 THEN (CHOOSE i \in DOMAIN rle : rle[i] = 0 /\ \A j \in 1..(i - 1) : rle[j] # 0) - 1
                         ELSE Len(rle) IN [i \in 1..n |-> RleSym(rle[i])]
(* compress_block_hash_with_rle into an existing dual object: the kept symbols are written from
   the front, the rest of the array is cleared; the RLE symbols are written from the front and the
   rest of the block is cleared *)
CompressInto(raw, dst, cap, rlecap) ==
  LET c == CompressImpl(raw) IN
  [arr |-> [i \in 1..cap |-> IF i <= Len(c.out) THEN c.out[i]
                             ELSE 0],                             \* blockhash_out[len..].fill(0)
   len |-> Len(c.out),
   rle |-> [i \in 1..rlecap |-> IF i <= Len(c.rle) THEN RleByte(c.rle[i])
                                ELSE 0]]                          \* rle_block_out[rle_offset..].fill(TERMINATOR)
FreshDual(cap, rlecap) == [arr |-> [i \in 1..cap |-> 0], len |-> 0, rle |-> [i \in 1..rlecap |-> 0]]
ValidDual(d, cap, rlecap) ==
  /\ ValidRep([arr |-> d.arr, len |-> d.len], cap) /\ IsNormalized(Abs(d))
  /\ \A i \in 1..rlecap : d.rle[i] = 0 => \A j \in i..rlecap : d.rle[j] = 0        \* nothing after the terminator
  /\ ValidRle(Abs(d), RleSyms(d.rle))
(* expand_block_hash_using_rle into an existing raw object *)
ExpandInto(d, dst, cap) ==
  LET s == DecodeRle(Abs(d), RleSyms(d.rle)) IN
  [arr |-> [i \in 1..cap |-> IF i <= Len(s) THEN s[i]
                             ELSE 0],                             \* blockhash_out[offset_dst + copy_len..].fill(0)
   len |-> Len(s)]
=============================================================================
