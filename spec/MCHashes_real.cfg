SPECIFICATION Spec
CONSTANTS
  LB = 16
  WINDOW = 7
  SHIFT = 5
  BYTES = {0, 1, 128, 255}
  MAXLEN = 9
  FNVGRID = TRUE
INVARIANTS WindowOnly IncFields
CHECK_DEADLOCK FALSE
