------------------------------ MODULE GenTarget ------------------------------
(***************************************************************************)
(* The reusable comparison target and position array of C17 as a          *)
(* GENERATOR of histories (the spec -> code direction, like GenObj):       *)
(* one target and one position array, re-initialised again and again from *)
(* a pool built so that every new content stands in a chosen relation to   *)
(* the content it replaces -- a proper prefix of it, an extension of it,   *)
(* empty, of full length 64, the same string under another block size --   *)
(* with an observation after every mutation.  TLC (-simulate) prints each  *)
(* behaviour; the harness replays it on a real target / array and          *)
(* TraceCmp validates the recorded trace (masks, lengths, is_equiv,        *)
(* compare and candidate answers against a fresh object's).                *)
(***************************************************************************)
EXTENDS Integers, Sequences, TLC, Json
CONSTANT DEPTH
VARIABLES cur, arr, hist

Ramp(n, o) == [i \in 1..n |-> (o + 5 * i) % 64]          \* prefix-closed in n, no equal neighbours
Tri(n, c) == [i \in 1..n |-> (c + ((i - 1) \div 3)) % 64] \* runs of exactly three: still normalised
Strings == { <<>>, Ramp(6, 0), Ramp(7, 0), Ramp(8, 0), Ramp(31, 0), Ramp(32, 0), Ramp(33, 0), Ramp(63, 0), Ramp(64, 0),
             Ramp(64, 1), Ramp(20, 3), Tri(64, 9), Tri(30, 9), Tri(7, 62) }
Short == {s \in Strings : Len(s) <= 32}
Ks == {0, 5, 30}
Hashes == [k : Ks, a : Strings, b : Strings]
ShortHashes == [k : Ks, a : Strings, b : Short]
Empty == [k |-> 0, a |-> <<>>, b |-> <<>>]

Init == cur = Empty /\ arr = <<>> /\ hist = <<>>
(* each choice is drawn with RandomElement inside a one-element domain: see GenObj *)
TMut == \E w \in {RandomElement(1..10)} :
          IF w = 1 THEN /\ cur' = Empty /\ arr' = arr
                        /\ hist' = Append(hist, [ev |-> "tnew"])
          ELSE IF w <= 3 THEN \E h \in {RandomElement(Hashes)} :
                        /\ cur' = h /\ arr' = arr
                        /\ hist' = Append(hist, [ev |-> "tfrom", h |-> h])
          ELSE IF w <= 5 THEN \E h \in {RandomElement(ShortHashes)} :
                        /\ cur' = h /\ arr' = arr
                        /\ hist' = Append(hist, [ev |-> "tinit", h |-> h, via |-> "short"])
          ELSE IF w <= 7 THEN \E h \in {RandomElement(Hashes)} :
                        /\ cur' = h /\ arr' = arr
                        /\ hist' = Append(hist, [ev |-> "tinit", h |-> h, via |-> "dual"])
          ELSE (* a content RELATED to the one being replaced: same strings under another block size,
                  or one of the two strings replaced *)
               \E k \in {RandomElement(Ks)} : \E s \in {RandomElement(Strings)} : \E which \in {RandomElement(1..3)} :
                        LET h == IF which = 1 THEN [cur EXCEPT !.k = k]
                                 ELSE IF which = 2 THEN [cur EXCEPT !.a = s] ELSE [cur EXCEPT !.b = s] IN
                        /\ cur' = h /\ arr' = arr
                        /\ hist' = Append(hist, [ev |-> "tinit", h |-> h, via |-> "long"])
TObs == \E x \in {RandomElement(Hashes)} : \E y \in {RandomElement(Hashes)} : \E s \in {RandomElement(Strings)} :
          /\ UNCHANGED <<cur, arr>>
          /\ hist' = Append(hist, [ev |-> "tobs", cmp |-> << [h |-> cur], [h |-> x], [h |-> y], [h |-> [cur EXCEPT !.a = s]],
                                                          [h |-> [cur EXCEPT !.b = s]], [h |-> [k |-> cur.k, a |-> cur.b, b |-> cur.a]] >>])
PMut == \E w \in {RandomElement(1..6)} :
          IF w = 1 THEN arr' = <<>> /\ cur' = cur /\ hist' = Append(hist, [ev |-> "pnew"])
          ELSE IF w = 2 THEN arr' = <<>> /\ cur' = cur /\ hist' = Append(hist, [ev |-> "pclear"])
          ELSE \E s \in {RandomElement(Strings)} :
                 arr' = s /\ cur' = cur /\ hist' = Append(hist, [ev |-> "pinit", s |-> s])
PObs == \E s \in {RandomElement(Strings)} : \E u \in {RandomElement(Strings)} :
          /\ UNCHANGED <<cur, arr>>
          /\ hist' = Append(hist, [ev |-> "pobs", equiv |-> << [s |-> arr], [s |-> s], [s |-> u] >>])
Next == /\ Len(hist) < DEPTH
        /\ CASE Len(hist) % 4 = 0 -> TMut
             [] Len(hist) % 4 = 1 -> TObs
             [] Len(hist) % 4 = 2 -> PMut
             [] OTHER -> PObs
Spec == Init /\ [][Next]_<<cur, arr, hist>>
Emit == Len(hist) = DEPTH => PrintT("REPLAY " \o ToJson(hist))
=============================================================================
