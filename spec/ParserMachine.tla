--------------------------- MODULE ParserMachine ---------------------------
(***************************************************************************)
(* The text parser as the code implements it (C04, C14):                   *)
(*   PBlockSize   parse_block_size_from_bytes  (digit accumulation with    *)
(*                overflow flag, the four block size error kinds)          *)
(*   PBlockHash   parse_block_hash_from_bytes  (char-by-char machine with  *)
(*                seq / seq_start / seq_start_in / prev / len / index,     *)
(*                the capacity check after run collapsing, the strict      *)
(*                variant that reads at most N characters and then peeks)  *)
(*   PParse       the three-field driver shared by plain and dual types    *)
(*                (error origin, kind and offset; caller's index)          *)
(*   dual = TRUE adds the raw-length accounting of the repaired dual       *)
(*   parser (finding F1).                                                  *)
(* MCParser checks PParse against the declarative grammar Text!Parse.      *)
(***************************************************************************)
EXTENDS Text
CONSTANT U32MAX             \* 4294967295 does not fit a TLC integer: the scaled models never reach it

IsPow2(n) == n > 0 /\ \E k \in 0..30 : n = 2^k
BsValid(v) == v % 3 = 0 /\ IsPow2(v \div 3)
Log2(n) == CHOOSE k \in 0..30 : n = 2^k

(* ---- block size field: returns [ok, v, next] or [ok |-> FALSE, kind, off] ---- *)
RECURSIVE PBlockSizeLoop(_, _, _, _)
PBlockSizeLoop(t, i, v, inrange) ==          \* i: 0-based index of the byte examined
  IF i >= Len(t) THEN [ok |-> FALSE, kind |-> "UnexpectedEndOfString", off |-> Len(t)]
  ELSE LET c == t[i + 1] IN
       IF IsDigit(c)
       THEN IF ~inrange THEN PBlockSizeLoop(t, i + 1, v, FALSE)
            ELSE LET nv == v * 10 + (c - 48) IN
                 IF v > (U32MAX - (c - 48)) \div 10 THEN PBlockSizeLoop(t, i + 1, v, FALSE)      \* checked_mul / checked_add
                 ELSE IF nv = 0 THEN [ok |-> FALSE, kind |-> "BlockSizeStartsWithZero", off |-> 0]
                 ELSE PBlockSizeLoop(t, i + 1, nv, TRUE)
       ELSE IF c = COLON
            THEN IF i = 0 THEN [ok |-> FALSE, kind |-> "BlockSizeIsEmpty", off |-> 0]
                 ELSE IF ~inrange THEN [ok |-> FALSE, kind |-> "BlockSizeIsTooLarge", off |-> 0]
                 ELSE IF ~BsValid(v) THEN [ok |-> FALSE, kind |-> "BlockSizeIsInvalid", off |-> 0]
                 ELSE [ok |-> TRUE, k |-> Log2(v \div 3), next |-> i + 1]
            ELSE [ok |-> FALSE, kind |-> "UnexpectedCharacter", off |-> i]
PBlockSize(t) == PBlockSizeLoop(t, 0, 0, TRUE)

(* ---- block hash field starting at 0-based offset `base`: returns
        [state, used, out (symbols), extra (characters removed by run collapsing)] ---- *)
RECURSIVE PBlockHashLoop(_, _, _, _, _, _, _)
PBlockHashLoop(t, base, n, normalize, strict, index, st) ==
  LET pos == base + index IN                   \* 0-based position in t
  IF (strict /\ index >= n) \/ pos >= Len(t)
  THEN (* iterator exhausted: strict mode peeks at the next byte *)
       IF pos >= Len(t) THEN [state |-> "MetEndOfString", used |-> index, out |-> st.out, extra |-> st.extra]
       ELSE LET c == t[pos + 1] IN
            IF c = COLON THEN [state |-> "MetColon", used |-> index + 1, out |-> st.out, extra |-> st.extra]
            ELSE IF c = COMMA THEN [state |-> "MetComma", used |-> index + 1, out |-> st.out, extra |-> st.extra]
            ELSE [state |-> "OverflowError", used |-> index, out |-> st.out, extra |-> st.extra]
  ELSE LET c == t[pos + 1] IN
       IF ~IsB64(c)
       THEN IF c = COLON THEN [state |-> "MetColon", used |-> index + 1, out |-> st.out, extra |-> st.extra]
            ELSE IF c = COMMA THEN [state |-> "MetComma", used |-> index + 1, out |-> st.out, extra |-> st.extra]
            ELSE [state |-> "Base64Error", used |-> index, out |-> st.out, extra |-> st.extra]
       ELSE LET curr == B64Value(c) IN
            IF normalize /\ curr = st.prev /\ st.seq + 1 >= MAXRUN
            THEN PBlockHashLoop(t, base, n, normalize, strict, index + 1, [st EXCEPT !.seq = MAXRUN, !.extra = @ + 1])
            ELSE LET st1 == IF normalize /\ curr = st.prev THEN [st EXCEPT !.seq = @ + 1]
                            ELSE [st EXCEPT !.seq = 0, !.prev = curr] IN
                 IF ~strict /\ Len(st1.out) >= n
                 THEN [state |-> "OverflowError", used |-> index, out |-> st1.out, extra |-> st1.extra]
                 ELSE PBlockHashLoop(t, base, n, normalize, strict, index + 1, [st1 EXCEPT !.out = Append(@, curr)])
PBlockHash(t, base, n, normalize, strict) ==
  PBlockHashLoop(t, base, n, normalize, strict, 0, [seq |-> 0, prev |-> -1, out |-> <<>>, extra |-> 0])

(* ---- the driver (hash_from_bytes_with_last_index_internal_template!) ---- *)
PErr(kind, origin, off) == [ok |-> FALSE, kind |-> kind, origin |-> origin, off |-> off]
PParse(kind, strict, t) ==
  LET bs == PBlockSize(t) IN
  IF ~bs.ok THEN PErr(bs.kind, "BlockSize", bs.off)
  ELSE
    LET norm == kind.norm \/ kind.dual
        r1   == PBlockHash(t, bs.next, CAP1, norm, strict)
        off1 == bs.next + r1.used
    IN CASE r1.state = "MetComma" -> PErr("UnexpectedCharacter", "BlockHash1", off1 - 1)
         [] r1.state = "Base64Error" -> PErr("UnexpectedCharacter", "BlockHash1", off1)
         [] r1.state = "MetEndOfString" -> PErr("UnexpectedEndOfString", "BlockHash1", off1)
         [] r1.state = "OverflowError" -> PErr("BlockHashIsTooLong", "BlockHash1", off1)
         [] OTHER ->
            (* dual types (repaired): the raw block hash must fit as well *)
            IF kind.dual /\ Len(r1.out) + r1.extra > CAP1 THEN PErr("BlockHashIsTooLong", "BlockHash1", bs.next + CAP1)
            ELSE
              LET cap2 == IF kind.long THEN CAP2L ELSE CAP2S
                  r2   == PBlockHash(t, off1, cap2, norm, strict)
                  off2 == off1 + r2.used
                  raw(r, start) == Decode(t, start + 1, start + Len(r.out) + r.extra)   \* the raw characters consumed
              IN CASE r2.state = "MetColon" -> PErr("UnexpectedCharacter", "BlockHash2", off2 - 1)
                   [] r2.state = "Base64Error" -> PErr("UnexpectedCharacter", "BlockHash2", off2)
                   [] r2.state = "OverflowError" -> PErr("BlockHashIsTooLong", "BlockHash2", off2)
                   [] OTHER ->
                      IF kind.dual /\ Len(r2.out) + r2.extra > cap2 THEN PErr("BlockHashIsTooLong", "BlockHash2", off1 + cap2)
                      ELSE [ok  |-> TRUE,
                            h   |-> [k |-> bs.k,
                                     a |-> IF kind.dual THEN raw(r1, bs.next) ELSE r1.out,
                                     b |-> IF kind.dual THEN raw(r2, off1) ELSE r2.out],
                            end |-> IF r2.state = "MetComma" THEN off2 - 1 ELSE off2]
=============================================================================
