--------------------------- MODULE ParserMachine ---------------------------
(***************************************************************************)
(* The text parser as the code implements it (C04, C14):                   *)
(*   PBlockSize   parse_block_size_from_bytes  (the block size error kinds  *)
(*                and offsets; 32-bit range decided on the digit string)   *)
(*   PBlockHash   parse_block_hash_from_bytes  (char-by-char machine with  *)
(*                seq / seq_start / seq_start_in / prev / len / index,     *)
(*                the capacity check after run collapsing, the strict      *)
(*                variant that reads at most N characters and then peeks)  *)
(*   PParse       the three-field driver shared by plain and dual types    *)
(*                (error origin, kind and offset; caller's index)          *)
(*   dual = TRUE adds the raw-length accounting of the repaired dual       *)
(*   parser (finding F1).                                                  *)
(* MCParser checks PParse against the declarative grammar Text!Parse.      *)
(***************************************************************************)
EXTENDS Text

(* ---- block size field: returns [ok, k, next] or [ok |-> FALSE, kind, off].
   The code accumulates a u32 with checked arithmetic and an "in range" flag; 4294967295 does not fit
   a TLC integer, so the same decisions are stated on the digit string: a leading '0' is refused at
   once; the value fits 32 bits iff it has fewer than 10 digits or has 10 digits and is not above
   "4294967295" digit by digit; it is valid iff it is one of the 31 canonical decimal texts ---- *)
U32MaxDigits == <<52, 50, 57, 52, 57, 54, 55, 50, 57, 53>>          \* "4294967295"
RECURSIVE DigitsLE(_, _, _)
DigitsLE(x, y, i) == IF i > Len(x) THEN TRUE
                     ELSE IF x[i] < y[i] THEN TRUE ELSE IF x[i] > y[i] THEN FALSE ELSE DigitsLE(x, y, i + 1)
FitsU32(ds) == Len(ds) < 10 \/ (Len(ds) = 10 /\ DigitsLE(ds, U32MaxDigits, 1))
PBlockSize(t) ==
  LET n == SpanEnd(t, 1, TRUE) - 1 IN                                \* number of leading digits
  IF n >= 1 /\ t[1] = 48 THEN [ok |-> FALSE, kind |-> "BlockSizeStartsWithZero", off |-> 0]
  ELSE IF n = Len(t) THEN [ok |-> FALSE, kind |-> "UnexpectedEndOfString", off |-> Len(t)]
  ELSE IF t[n + 1] # COLON THEN [ok |-> FALSE, kind |-> "UnexpectedCharacter", off |-> n]
  ELSE IF n = 0 THEN [ok |-> FALSE, kind |-> "BlockSizeIsEmpty", off |-> 0]
  ELSE IF ~FitsU32(SubSeq(t, 1, n)) THEN [ok |-> FALSE, kind |-> "BlockSizeIsTooLarge", off |-> 0]
  ELSE IF ~(\E k \in 0..(NUMBS - 1) : SubSeq(t, 1, n) = BlockSizeText[k]) THEN [ok |-> FALSE, kind |-> "BlockSizeIsInvalid", off |-> 0]
  ELSE [ok |-> TRUE, k |-> CHOOSE k \in 0..(NUMBS - 1) : SubSeq(t, 1, n) = BlockSizeText[k], next |-> n + 1]

(* ---- block hash field starting at 0-based offset `base`: returns
        [state, used, out (symbols), extra (characters removed by run collapsing)] ---- *)
(* one step of the machine on character c; st = [index, seq, prev, out, extra, state] with
   state = "" while running.  The whole field is a left fold of this step over the rest of the
   text (after the machine has stopped the remaining characters change nothing). *)
PStep(n, normalize, strict, st, c) ==
  IF st.state # "" THEN st
  ELSE IF strict /\ st.index >= n
  THEN (* the strict parser has read its N characters: it peeks at the next byte *)
       IF c = COLON THEN [st EXCEPT !.state = "MetColon", !.index = @ + 1]
       ELSE IF c = COMMA THEN [st EXCEPT !.state = "MetComma", !.index = @ + 1]
       ELSE [st EXCEPT !.state = "OverflowError"]
  ELSE IF ~IsB64(c)
  THEN IF c = COLON THEN [st EXCEPT !.state = "MetColon", !.index = @ + 1]
       ELSE IF c = COMMA THEN [st EXCEPT !.state = "MetComma", !.index = @ + 1]
       ELSE [st EXCEPT !.state = "Base64Error"]
  ELSE LET curr == B64Value(c) IN
       IF normalize /\ curr = st.prev /\ st.seq + 1 >= MAXRUN
       THEN [st EXCEPT !.seq = MAXRUN, !.extra = @ + 1, !.index = @ + 1]
       ELSE LET st1 == IF normalize /\ curr = st.prev THEN [st EXCEPT !.seq = @ + 1]
                       ELSE [st EXCEPT !.seq = 0, !.prev = curr] IN
            IF ~strict /\ Len(st1.out) >= n THEN [st1 EXCEPT !.state = "OverflowError"]
            ELSE [st1 EXCEPT !.out = Append(@, curr), !.index = @ + 1]
PBlockHash(t, base, n, normalize, strict) ==
  LET step(st, c) == PStep(n, normalize, strict, st, c)
      r == FoldLeft(step, [index |-> 0, seq |-> 0, prev |-> -1, out |-> <<>>, extra |-> 0, state |-> ""],
                    SubSeq(t, base + 1, Len(t)))
  IN [state |-> IF r.state = "" THEN "MetEndOfString" ELSE r.state, used |-> r.index, out |-> r.out, extra |-> r.extra]
(* the same machine by recursion over the position (reference; MCParser: PBlockHashDefsAgree) *)
RECURSIVE PBlockHashLoop(_, _, _, _, _, _, _)
PBlockHashLoop(t, base, n, normalize, strict, index, st) ==
  LET pos == base + index IN                   \* 0-based position in t
  IF (strict /\ index >= n) \/ pos >= Len(t)
  THEN (* iterator exhausted: strict mode peeks at the next byte *)
       IF pos >= Len(t) THEN [state |-> "MetEndOfString", used |-> index, out |-> st.out, extra |-> st.extra]
       ELSE LET c == t[pos + 1] IN
            IF c = COLON THEN [state |-> "MetColon", used |-> index + 1, out |-> st.out, extra |-> st.extra]
            ELSE IF c = COMMA THEN [state |-> "MetComma", used |-> index + 1, out |-> st.out, extra |-> st.extra]
            ELSE [state |-> "OverflowError", used |-> index, out |-> st.out, extra |-> st.extra]
  ELSE LET c == t[pos + 1] IN
       IF ~IsB64(c)
       THEN IF c = COLON THEN [state |-> "MetColon", used |-> index + 1, out |-> st.out, extra |-> st.extra]
            ELSE IF c = COMMA THEN [state |-> "MetComma", used |-> index + 1, out |-> st.out, extra |-> st.extra]
            ELSE [state |-> "Base64Error", used |-> index, out |-> st.out, extra |-> st.extra]
       ELSE LET curr == B64Value(c) IN
            IF normalize /\ curr = st.prev /\ st.seq + 1 >= MAXRUN
            THEN PBlockHashLoop(t, base, n, normalize, strict, index + 1, [st EXCEPT !.seq = MAXRUN, !.extra = @ + 1])
            ELSE LET st1 == IF normalize /\ curr = st.prev THEN [st EXCEPT !.seq = @ + 1]
                            ELSE [st EXCEPT !.seq = 0, !.prev = curr] IN
                 IF ~strict /\ Len(st1.out) >= n
                 THEN [state |-> "OverflowError", used |-> index, out |-> st1.out, extra |-> st1.extra]
                 ELSE PBlockHashLoop(t, base, n, normalize, strict, index + 1, [st1 EXCEPT !.out = Append(@, curr)])
PBlockHashRec(t, base, n, normalize, strict) ==
  PBlockHashLoop(t, base, n, normalize, strict, 0, [seq |-> 0, prev |-> -1, out |-> <<>>, extra |-> 0])

(* ---- the driver (hash_from_bytes_with_last_index_internal_template!) ---- *)
PErr(kind, origin, off) == [ok |-> FALSE, kind |-> kind, origin |-> origin, off |-> off]
PParse(kind, strict, t) ==
  LET bs == PBlockSize(t) IN
  IF ~bs.ok THEN PErr(bs.kind, "BlockSize", bs.off)
  ELSE
    LET norm == kind.norm \/ kind.dual
        r1   == PBlockHash(t, bs.next, CAP1, norm, strict)
        off1 == bs.next + r1.used
    IN CASE r1.state = "MetComma" -> PErr("UnexpectedCharacter", "BlockHash1", off1 - 1)
         [] r1.state = "Base64Error" -> PErr("UnexpectedCharacter", "BlockHash1", off1)
         [] r1.state = "MetEndOfString" -> PErr("UnexpectedEndOfString", "BlockHash1", off1)
         [] r1.state = "OverflowError" -> PErr("BlockHashIsTooLong", "BlockHash1", off1)
         [] OTHER ->
            (* dual types (repaired): the raw block hash must fit as well *)
            IF kind.dual /\ Len(r1.out) + r1.extra > CAP1 THEN PErr("BlockHashIsTooLong", "BlockHash1", bs.next + CAP1)
            ELSE
              LET cap2 == IF kind.long THEN CAP2L ELSE CAP2S
                  r2   == PBlockHash(t, off1, cap2, norm, strict)
                  off2 == off1 + r2.used
                  raw(r, start) == Decode(t, start + 1, start + Len(r.out) + r.extra)   \* the raw characters consumed
              IN CASE r2.state = "MetColon" -> PErr("UnexpectedCharacter", "BlockHash2", off2 - 1)
                   [] r2.state = "Base64Error" -> PErr("UnexpectedCharacter", "BlockHash2", off2)
                   [] r2.state = "OverflowError" -> PErr("BlockHashIsTooLong", "BlockHash2", off2)
                   [] OTHER ->
                      IF kind.dual /\ Len(r2.out) + r2.extra > cap2 THEN PErr("BlockHashIsTooLong", "BlockHash2", off1 + cap2)
                      ELSE [ok  |-> TRUE,
                            h   |-> [k |-> bs.k,
                                     a |-> IF kind.dual THEN raw(r1, bs.next) ELSE r1.out,
                                     b |-> IF kind.dual THEN raw(r2, off1) ELSE r2.out],
                            end |-> IF r2.state = "MetComma" THEN off2 - 1 ELSE off2]
=============================================================================
