SPECIFICATION Spec
CONSTANTS
  MAXRUN = 3
  RUNMAX = 4
  CAP = 8
  RLECAP = 2
  SYMS = {0, 1}
  DEEP = TRUE
CHECK_DEADLOCK FALSE
