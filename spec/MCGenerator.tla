---------------------------- MODULE MCGenerator ----------------------------
(***************************************************************************)
(* Exhaustive refinement check at scaled constants:                        *)
(*    L2 (Generator.tla, shaped like generate.rs) agrees with L1           *)
(*    (CtphRef.tla) on every finalisation form after EVERY call history:   *)
(*    every input, every mix of byte-wise and slice updates (size added    *)
(*    up front), a size hint declared at any time, one reset() anywhere.   *)
(* Events are abstract: an event carries the largest block size index at   *)
(* which it ends a piece (-1: none), the piece hash is the piece length    *)
(* modulo K.  The scaled system has every mechanism of the real one:       *)
(* fork, fork limit, elimination, LEN-th piece absorption, half hash,      *)
(* last hash at the largest block size, zero rolling hash at the end,      *)
(* the input size limit (MAXIN = LEN * 2^(NUM-1)).                         *)
(***************************************************************************)
EXTENDS Generator, TLC
CONSTANTS K, MAXRESETS, FIXEDMODE, SLICES

MCRollInit == [lv |-> -1]
MCRollNext(r, e) == e
MCRollLevel(r) == r.lv
MCRollIsZero(r) == r.lv = -1
MCHInit == 1 % K
MCHNext(h, e) == (h + 1) % K
Events == {[lv |-> lv] : lv \in -1..(NUM - 1)}
MAXIN == SzToNat(MaxSize)

VARIABLES impl, ref, pending, resets, T
vars == <<impl, ref, pending, resets, T>>
Init == /\ impl = IInit /\ ref = RInit /\ pending = 0 /\ resets = 0
        /\ T \in (IF FIXEDMODE THEN 0..MAXIN ELSE {MAXIN + 1})
Byte == \E e \in Events :
          /\ pending = 0
          /\ impl' = IStep([impl EXCEPT !.size = SzAdd(@, SzOf(1))], e)
          /\ ref' = RStep(ref, e) /\ UNCHANGED <<pending, resets, T>>
BeginSlice == \E k \in (IF SLICES = {} THEN 2..(T - SzToNat(ref.size))
                        ELSE SLICES \cup {T - SzToNat(ref.size)}) :
          /\ pending = 0 /\ k > 1 /\ k <= T - SzToNat(ref.size)
          /\ impl' = [impl EXCEPT !.size = SzAdd(@, SzOf(k))] /\ pending' = k
          /\ UNCHANGED <<ref, resets, T>>
SliceByte == \E e \in Events :
          /\ pending > 0
          /\ impl' = IStep(impl, e) /\ ref' = RStep(ref, e) /\ pending' = pending - 1
          /\ UNCHANGED <<resets, T>>
SetFixed == /\ FIXEDMODE /\ pending = 0 /\ impl.fixed = NoSize
            /\ impl' = ISetFixed(impl, SzOf(T)) /\ UNCHANGED <<ref, pending, resets, T>>
Reset == /\ pending = 0 /\ resets < MAXRESETS /\ SzToNat(ref.size) > 0
         /\ impl' = IReset(impl) /\ ref' = RInit /\ resets' = resets + 1
         /\ UNCHANGED <<pending, T>>
Next == Byte \/ BeginSlice \/ SliceByte \/ SetFixed \/ Reset
Spec == Init /\ [][Next]_vars
SizeBound == SzToNat(ref.size) + pending <= T                      \* CONSTRAINT

(* every finalisation form, every admissible value of the rolling-hash-is-zero flag *)
Agree == pending = 0 =>
           \A t \in BOOLEAN : \A lg \in BOOLEAN :
             \A rzp \in (IF MCRollIsZero(ref.roll) THEN BOOLEAN ELSE {FALSE}) :
               LET i == IFinRz(impl, t, lg, rzp)
                   r == RFinRz(ref, t, lg, rzp) IN
               IF impl.fixed # NoSize /\ impl.fixed # impl.size THEN i.err = "Mismatch"
               ELSE i = r
SizeOK == pending = 0 => impl.size = ref.size
(* the progress fields stay inside the ranges the code's indexing relies on *)
RangeOK == /\ 0 <= impl.st /\ impl.st < impl.en /\ impl.en <= NUM
           /\ impl.mask = impl.st
           /\ \A i \in 0..(NUM - 1) : impl.cx[i].idx \in 0..(LEN - 1)
=============================================================================
