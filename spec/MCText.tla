------------------------------- MODULE MCText -------------------------------
(***************************************************************************)
(* Round-trip lemmas of the text specification itself (C05), on a complete *)
(* small domain at real capacities: for every hash value h and every kind, *)
(* Parse(Format(h)) succeeds with value h (run-collapsed for normalising   *)
(* kinds), with and without a trailing ",name"; the advertised length is   *)
(* the length of the text and never exceeds the advertised maximum; the    *)
(* 31 block size texts are pairwise different and parse only as themselves.*)
(***************************************************************************)
EXTENDS Text, TLC
CONSTANTS KS, SYMS, L1, L2
Strs(n) == UNION {[1..m -> SYMS] : m \in 0..n}
Objs == {[k |-> k, a |-> x, b |-> y] : k \in KS, x \in Strs(L1), y \in Strs(L2)}
Kinds == {[norm |-> n, long |-> g, dual |-> d] : n \in BOOLEAN, g \in BOOLEAN, d \in BOOLEAN}
VARIABLES p, done
Init == p \in Objs /\ done = FALSE
Check(h) ==
  LET t == Format(h) IN
  /\ Assert(Len(t) = LenInStr(h) /\ Len(t) <= MaxLenInStr(FALSE), <<"length", h>>)
  /\ \A kd \in Kinds : \A strict \in BOOLEAN : \A suffix \in {<<>>, <<COMMA, 120, COLON>>} :
       LET r == Parse(kd, strict, t \o suffix)
           want == IF kd.norm /\ ~kd.dual THEN NormalizeHash(h) ELSE h IN
       Assert(r.ok /\ r.h = want /\ r.end = Len(t), <<"roundtrip", h, kd, strict, r>>)
  /\ \A kd \in Kinds : Assert(~Parse(kd, FALSE, SubSeq(t, 1, Len(t) - Len(h.b) - 1)).ok, <<"truncated text accepted", h>>)
Next == ~done /\ done' = TRUE /\ p' = p /\ Check(p)
Spec == Init /\ [][Next]_<<p, done>>
BlockSizeTextsDistinct == \A i, j \in 0..(NUMBS - 1) : BlockSizeText[i] = BlockSizeText[j] => i = j
=============================================================================
