------------------------------ MODULE TraceCmp ------------------------------
(***************************************************************************)
(* Trace validation of the comparison side (C02 C08 C09 C10 C17 C20):      *)
(* every recorded call of the real comparison API is judged by the         *)
(* declarative operators of Compare.tla at real constants.                 *)
(***************************************************************************)
EXTENDS Compare, Word32, TraceBase
T == INSTANCE Text WITH CAP1 <- 64, CAP2S <- 32, CAP2L <- 64
Msg == INSTANCE Messages
VARIABLES l, tg, pa
vars == <<l, tg, pa>>
Ev(k) == l <= NRec /\ Rec[l].ev = k
E == Rec[l]
(* no call made while the event was recorded panicked (a panicking call is recorded with a
   value of the right type so that TLC can compare it, and counted here) *)
NoPanic == Expect(E.panics = 0, <<l, "a call panicked", E.panics>>)
Stateless == NoPanic /\ l' = l + 1 /\ UNCHANGED <<tg, pa>>
Init == l = 1 /\ tg = <<>> /\ pa = <<>>

H(x) == [k |-> x.k, a |-> x.a, b |-> x.b]
AllEq(obj, v) == \A f \in DOMAIN obj : obj[f] = v
Positions(s, c) == {i - 1 : i \in {j \in 1..Len(s) : s[j] = c}}
MaskSets(s) == [c \in 1..64 |-> Positions(s, c - 1)]
AsSets(m) == [c \in 1..64 |-> {m[c][i] : i \in 1..Len(m[c])}]

(* C08 *)
EvEd == /\ Ev("ed")
        /\ LET d == Dist(E.a, E.b) IN Expect(AllEq(E.rs, d) /\ "pa" \in DOMAIN E.rs, <<l, "ed", d>>)
        /\ Stateless
(* C09 *)
EvSub == /\ Ev("sub")
         /\ LET c == Common(E.a, E.b) IN Expect(AllEq(E.rs, c) /\ "pa" \in DOMAIN E.rs, <<l, "sub", c>>)
         /\ Stateless
(* per-block-hash score (C02) *)
EvSs == /\ Ev("ss")
        /\ LET s == ScoreStrings(E.a, E.b, E.n)
               w == ScoreRaw(E.a, E.b)
           IN Expect(AllEq(E.rs, s) /\ AllEq(E.raw, w) /\ "pa" \in DOMAIN E.rs, <<l, "ss", s, w>>)
        /\ Stateless
(* hash comparison through every entry point, both orders (C02, C10) *)
EvCmp == /\ Ev("cmp")
         /\ LET A == NormalizeHash(H(E.A))
                B == NormalizeHash(H(E.B))
                s == Compare(A, B)
                c == Candidate(A, B)
            IN /\ Expect(AllEq(E.rs, s) /\ AllEq(E.rev, s) /\ AllEq(E.cand, c) /\ AllEq(E.candrev, c)
                         /\ "long" \in DOMAIN E.rs /\ "target" \in DOMAIN E.rs,
                         <<l, "cmp", s, c>>)
               (* the laws of C10, re-checked on the recorded values themselves *)
               /\ Expect(\A f \in DOMAIN E.rs : E.rs[f] \in 0..100, <<l, "cmp-range">>)
               /\ Expect((\E f \in DOMAIN E.rs : E.rs[f] > 0) <=> (A = B \/ \E f \in DOMAIN E.cand : E.cand[f]), <<l, "cmp-positive-iff-candidate">>)
         /\ Stateless
(* windows (C10): symbols, numeric encoding (as base-64 digits), index encoding *)
Digits(ws) == [i \in 1..Len(ws) |-> ws[i].d]
His(ws) == {ws[i].hi : i \in 1..Len(ws)}
EvWin == /\ Ev("win")
         /\ LET A == H(E.A)
                w1 == WindowSeq(A.a)
                w2 == WindowSeq(A.b)
            IN /\ Expect(E.w1 = w1 /\ E.w2 = w2, <<l, "win-symbols">>)
               /\ Expect(Digits(E.n1) = w1 /\ Digits(E.n2) = w2 /\ His(E.n1) \subseteq {0} /\ His(E.n2) \subseteq {0}, <<l, "win-numeric">>)
               /\ Expect(Digits(E.i1) = w1 /\ Digits(E.i2) = w2 /\ His(E.i1) \subseteq {A.k} /\ His(E.i2) \subseteq {A.k + 1}, <<l, "win-index">>)
               /\ Expect(E.lens = <<Len(w1), Len(w2), Len(w1), Len(w2), Len(w1), Len(w2)>>, <<l, "win-len">>)
               (* iterator laws: the exact remaining length after every step, fused at the end *)
               /\ Expect(E.iter1 = [i \in 1..(Len(w1) + 1) |-> Len(w1) + 1 - i] /\ E.iter2 = [i \in 1..(Len(w2) + 1) |-> Len(w2) + 1 - i]
                         /\ E.fused = TRUE /\ E.hints = TRUE, <<l, "win-iterator-laws">>)
               (* the other ways of consuming the same iterator: nth(n) returns window n + 1 and leaves
                  the windows after it; skip(n), step_by(n + 1), last and count agree with the sequence *)
               /\ Expect(\A i \in 1..Len(E.nth) :
                            LET r == E.nth[i]
                                From(ws, k) == SubSeq(ws, k, Len(ws))
                                Every(ws, st) == [j \in 1..((Len(ws) + st - 1) \div st) |-> ws[(j - 1) * st + 1]]
                                sk == From(w2, (r.n \div 2) + 1) IN
                            /\ Digits(r.got) = (IF r.n < Len(w1) THEN <<w1[r.n + 1]>> ELSE <<>>)
                            /\ Digits(r.rest) = From(w1, r.n + 2) /\ His(r.got) \subseteq {0} /\ His(r.rest) \subseteq {0}
                            /\ Digits(r.got2) = (IF r.n2 < Len(w2) THEN <<w2[r.n2 + 1]>> ELSE <<>>)
                            /\ Digits(r.rest2) = From(w2, r.n2 + 2) /\ His(r.got2) \subseteq {A.k + 1} /\ His(r.rest2) \subseteq {A.k + 1}
                            /\ Digits(r.skip) = From(w1, r.n + 1) /\ His(r.skip) \subseteq {A.k}
                            /\ Digits(r.step) = Every(w1, r.n + 1) /\ His(r.step) \subseteq {0}
                            /\ Digits(r.last) = (IF Len(sk) = 0 THEN <<>> ELSE <<sk[Len(sk)]>>) /\ His(r.last) \subseteq {0}
                            /\ r.count = Len(From(w1, r.n + 1)), <<l, "win-nth-skip-step">>)
               (* candidate <=> recorded index window sets intersect, on recorded values *)
         /\ Stateless

(* ---------------- C17: reusable targets and position arrays ---------------- *)
EvTInit == /\ (Ev("tinit") \/ Ev("tfrom") \/ Ev("tnew"))
           /\ tg' = (E.t :> (IF E.ev = "tnew" THEN [k |-> 0, a |-> <<>>, b |-> <<>>] ELSE H(E.h))) @@ tg
           /\ l' = l + 1 /\ UNCHANGED pa
EvTObs == /\ Ev("tobs")
          /\ LET A == tg[E.t] IN
             /\ Expect(E.valid = TRUE /\ E.fresheq = TRUE /\ E.k = A.k, <<l, "tobs-valid-fresh", A>>)
             /\ Expect(\A i \in 1..Len(E.equiv) : E.equiv[i].r = (H(E.equiv[i].h) = A), <<l, "tobs-equiv", A>>)
             /\ Expect(\A i \in 1..Len(E.cmp) :
                         /\ E.cmp[i].r = Compare(A, H(E.cmp[i].h))
                         /\ E.cmp[i].c = Candidate(A, H(E.cmp[i].h)), <<l, "tobs-cmp", A>>)
             /\ Expect(AsSets(E.m1) = MaskSets(A.a) /\ AsSets(E.m2) = MaskSets(A.b)
                       /\ E.l1 = Len(A.a) /\ E.l2 = Len(A.b), <<l, "tobs-masks", A>>)
          /\ NoPanic /\ UNCHANGED <<tg, pa>> /\ l' = l + 1
EvPInit == /\ (Ev("pinit") \/ Ev("pnew") \/ Ev("pclear"))
           /\ pa' = (E.p :> (IF E.ev = "pinit" THEN E.s ELSE <<>>)) @@ pa
           /\ l' = l + 1 /\ UNCHANGED tg
EvPObs == /\ Ev("pobs")
          /\ LET s == pa[E.p] IN
             /\ Expect(E.len = Len(s) /\ E.valid = TRUE /\ E.vn = IsNormalized(s) /\ E.empty = (Len(s) = 0), <<l, "pobs", s>>)
             /\ Expect(AsSets(E.m) = MaskSets(s), <<l, "pobs-masks", s>>)
             /\ Expect(\A i \in 1..Len(E.equiv) : E.equiv[i].r = (E.equiv[i].s = s), <<l, "pobs-equiv", s>>)
          /\ NoPanic /\ UNCHANGED <<tg, pa>> /\ l' = l + 1

(* ---------------- C20: complete finite domains ---------------- *)
RECURSIVE WDouble(_, _)
WDouble(x, n) == IF n = 0 THEN x ELSE CHOOSE r \in {WAdd(y, y) : y \in {WDouble(x, n - 1)}} : TRUE
BS(n) == WDouble(<<0, 3>>, n)                          \* 3 * 2^n as <<hi16, lo16>>
RelOrd(a, b) == IF a < b THEN -1 ELSE IF a = b THEN 0 ELSE 1
EvBsValid == /\ Ev("bsvalid")        \* the complete set {x \in u32 : is_valid(x)}
             /\ Expect({E.set[i] : i \in 1..Len(E.set)} = {BS(n) : n \in 0..(NUMBS - 1)} /\ Len(E.set) = NUMBS, <<l, "bsvalid">>)
             /\ Stateless
EvBsLog == /\ Ev("bslog")            \* n in 0..255
           /\ Expect(/\ E.valid = (E.n < NUMBS)
                     /\ IF E.n < NUMBS THEN /\ E.from = BS(E.n) /\ E.back = E.n /\ E.isvalid = TRUE
                                             (* canonical decimal form, and back *)
                                             /\ E.txt = T!BlockSizeText[E.n] \o <<58, 58>>
                                             /\ E.parsed = E.n /\ E.acc = BS(E.n)
                        ELSE E.from = <<-1, -1>>, <<l, "bslog", E.n>>)
           /\ Stateless
EvBsRel == /\ Ev("bsrel")            \* all 31 x 31 pairs
           /\ LET r == Relation(E.a, E.b) IN
              Expect(/\ E.rel = r /\ E.near = (r # "Far") /\ E.eq = (r = "NearEq")
                     /\ E.lt = (r = "NearLt") /\ E.gt = (r = "NearGt") /\ E.ord = RelOrd(E.a, E.b)
                     /\ E.relnear = (r # "Far"), <<l, "bsrel", r>>)
           /\ Stateless
EvRawScore == /\ Ev("rawscore")      \* for (l1, l2): all d in 0..l1+l2-2*WIN
              /\ Expect(/\ Len(E.rs) = E.l1 + E.l2 - 2 * WIN + 1
                        /\ \A i \in 1..Len(E.rs) : E.rs[i] = RawScore(E.l1, E.l2, i - 1) /\ E.rs[i] \in 1..100,
                        <<l, "rawscore", E.l1, E.l2>>)
              /\ Stateless
EvCap == /\ Ev("cap")                \* for (n, l1): all l2 in 0..64
         /\ Expect(\A i \in 1..Len(E.rs) :
                      IF CapApplies(E.n) THEN E.rs[i] = Cap(E.n, E.l1, i - 1) ELSE E.rs[i] >= 100,
                   <<l, "cap", E.n, E.l1>>)
         /\ Expect(Len(E.rs) = FULL + 1 /\ CapApplies(E.border - 1) /\ ~CapApplies(E.border), <<l, "cap-border">>)
         /\ Stateless

(* the string entry point on arbitrary texts: both texts are parsed as long normalising hashes
   (default parser); a parse failure of the left text is reported before one of the right text *)
Drift(cond, info) == IF cond THEN TRUE ELSE PrintT("DRIFT " \o ToJson(info))
LongNorm == [norm |-> TRUE, long |-> TRUE, dual |-> FALSE]
EvCmpStr == /\ Ev("cmpstr")
            /\ LET qa == T!Parse(LongNorm, FALSE, E.ta)
                   qb == T!Parse(LongNorm, FALSE, E.tb)
               IN /\ Expect(IF qa.ok /\ qb.ok THEN E.r.ok = "ok" /\ E.r.score = Compare(qa.h, qb.h)
                            ELSE E.r.ok = "err", <<l, "cmpstr", qa.ok, qb.ok>>)
                  /\ Drift((qa.ok /\ qb.ok) \/ (E.r.side = (IF ~qa.ok THEN "Left" ELSE "Right")
                                                /\ E.r.origin = (IF ~qa.ok THEN qa.origin ELSE qb.origin)), <<l, "cmpstr-error-side">>)
                  /\ Drift((qa.ok /\ qb.ok) \/ E.r.msg = Msg!ParseErrorEitherMsg(E.r.side, E.r.kind, E.r.origin, E.r.off), <<l, "cmpstr-error-message">>)
            /\ Stateless
(* position array element: "contains a run of at least len one bits" (x as four 16-bit limbs, low first) *)
XBit(x, i) == (x[(i \div 16) + 1] \div 2^(i % 16)) % 2
HasRun(x, len) == IF len = 0 THEN TRUE ELSE IF len > 64 THEN FALSE
                  ELSE \E i \in 0..(64 - len) : \A d \in 0..(len - 1) : XBit(x, i + d) = 1
EvHasSeq == /\ Ev("hasseq")
            /\ Expect(Len(E.rs) = 67 /\ \A n \in 0..66 : E.rs[n + 1] = HasRun(E.x, n), <<l, "hasseq">>)
            /\ Expect(E.c4 = HasRun(E.x, 4), <<l, "hasseq-const">>)
            /\ Stateless
Next == EvCmpStr \/ EvHasSeq \/ EvEd \/ EvSub \/ EvSs \/ EvCmp \/ EvWin \/ EvTInit \/ EvTObs \/ EvPInit \/ EvPObs
        \/ EvBsValid \/ EvBsLog \/ EvBsRel \/ EvRawScore \/ EvCap
Spec == Init /\ [][Next]_vars
Progress == Mark(l)
=============================================================================
