------------------------------ MODULE Compare ------------------------------
(***************************************************************************)
(* ssdeep's fuzzy_compare, declaratively (C02, C08, C09, C10, C20).        *)
(*   Lcs        textbook dynamic programming, row by row                   *)
(*   Dist       insert/delete edit distance |a| + |b| - 2 Lcs              *)
(*   Common     the two strings share WIN consecutive symbols              *)
(*   RawScore   100 - floor(100 * floor(FULL * d / (l1 + l2)) / FULL)      *)
(*   Cap        (block size / MINBS) * min(l1, l2), for small block sizes  *)
(*   Compare    dispatch on the block size relation, identity shortcut     *)
(* WIN, FULL are constants so that the laws of C10 can be model-checked on *)
(* a complete small domain (WIN = 3) with the same text.                   *)
(***************************************************************************)
EXTENDS BlockHash, FiniteSets
CONSTANTS WIN,             \* 7: minimum common substring / rolling window
          FULL,            \* 64
          NUMBS            \* 31 valid block size indices 0..NUMBS-1

MinOf2(a, b) == IF a <= b THEN a ELSE b
MaxOf2(a, b) == IF a >= b THEN a ELSE b

(* ---------------- longest common subsequence, row-wise DP ---------------- *)
(* row = <<L[1][j], ..., L[n][j]>> for the first j symbols of b (L[0][j] = 0) *)
RECURSIVE LcsRowAcc(_, _, _, _, _)
LcsRowAcc(row, a, c, i, acc) ==
  IF i > Len(a) THEN acc
  ELSE LET up   == row[i]
           left == IF i = 1 THEN 0 ELSE acc[i - 1]
           diag == IF i = 1 THEN 0 ELSE row[i - 1]
       IN LcsRowAcc(row, a, c, i + 1, Append(acc, IF a[i] = c THEN diag + 1 ELSE MaxOf2(up, left)))
RECURSIVE LcsRows(_, _, _, _)
LcsRows(row, a, b, j) == IF j > Len(b) THEN row ELSE LcsRows(LcsRowAcc(row, a, b[j], 1, <<>>), a, b, j + 1)
Lcs(a, b) == IF Len(a) = 0 \/ Len(b) = 0 THEN 0
             ELSE LcsRows([i \in 1..Len(a) |-> 0], a, b, 1)[Len(a)]
Dist(a, b) == Len(a) + Len(b) - 2 * Lcs(a, b)

(* ---------------- common substring of WIN symbols ------------------------ *)
Windows(s) == {SubSeq(s, i, i + WIN - 1) : i \in 1..(Len(s) - WIN + 1)}
Common(a, b) == Windows(a) \cap Windows(b) # {}

(* ---------------- score scaling and capping ------------------------------ *)
RawScore(l1, l2, d) == 100 - (100 * ((d * FULL) \div (l1 + l2))) \div FULL
(* ssdeep: no cap when block_size >= (99 + WIN) / WIN * MINBS, i.e. 2^n >= (99 + WIN) / WIN *)
CapApplies(n) == n < 7 /\ 2^n < (99 + WIN) \div WIN      \* (99 + WIN) / WIN <= 100 < 2^7; avoids 2^31
Cap(n, l1, l2) == (2^n) * MinOf2(l1, l2)
ScoreRaw(a, b) == IF ~Common(a, b) THEN 0 ELSE RawScore(Len(a), Len(b), Dist(a, b))
ScoreStrings(a, b, n) == LET s == ScoreRaw(a, b) IN
                         IF CapApplies(n) THEN MinOf2(s, Cap(n, Len(a), Len(b))) ELSE s

(* ---------------- block size relations ----------------------------------- *)
Relation(k1, k2) == IF k1 = k2 THEN "NearEq" ELSE IF k1 + 1 = k2 THEN "NearLt"
                    ELSE IF k1 = k2 + 1 THEN "NearGt" ELSE "Far"

(* ---------------- hash comparison (operands are normalised hashes) ------- *)
Compare(A, B) ==
  CASE Relation(A.k, B.k) = "NearEq" ->
         IF A.a = B.a /\ A.b = B.b THEN 100
         ELSE MaxOf2(ScoreStrings(A.a, B.a, A.k), ScoreStrings(A.b, B.b, A.k + 1))
    [] Relation(A.k, B.k) = "NearLt" -> ScoreStrings(A.b, B.a, B.k)
    [] Relation(A.k, B.k) = "NearGt" -> ScoreStrings(A.a, B.b, A.k)
    [] OTHER -> 0
Candidate(A, B) ==
  CASE Relation(A.k, B.k) = "NearEq" -> Common(A.a, B.a) \/ Common(A.b, B.b)
    [] Relation(A.k, B.k) = "NearLt" -> Common(A.b, B.a)
    [] Relation(A.k, B.k) = "NearGt" -> Common(A.a, B.b)
    [] OTHER -> FALSE

(* ---------------- windows (C10) ------------------------------------------ *)
WindowSeq(s) == [i \in 1..MaxOf2(0, Len(s) - WIN + 1) |-> SubSeq(s, i, i + WIN - 1)]
(* index window = (effective block size index, the WIN symbols): block hash 1 at k,
   block hash 2 at k + 1 (so the largest block size has effective index NUMBS) *)
IndexWindows(A) == {<<A.k, w>> : w \in Windows(A.a)} \cup {<<A.k + 1, w>> : w \in Windows(A.b)}
=============================================================================
