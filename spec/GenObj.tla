------------------------------- MODULE GenObj -------------------------------
(***************************************************************************)
(* The object slot machine of C11 / C15 as a GENERATOR of histories: the   *)
(* other direction of the conformance binding.  TraceObj validates the     *)
(* histories a Rust driver invents; here TLC (-simulate) walks the         *)
(* machine itself -- twelve typed slots, `set` from a pool of values       *)
(* placed on the representation's borders, and every conversion the table *)
(* Ops allows between slots of matching types -- and prints each           *)
(* behaviour as JSON.  The harness replays the operations on real objects  *)
(* (replay obj), records what it observes, and TraceObj validates that     *)
(* trace: predicted state against observed state after every step.         *)
(* While walking, TLC also checks the machine's own invariant TypeOK: no   *)
(* operation leaves a slot outside the contract of its type (C11 at the    *)
(* abstract level).                                                        *)
(***************************************************************************)
EXTENDS Order, Text, TLC, Json
CONSTANT DEPTH
VARIABLES slots, hist

SlotType(i) == <<"RS", "RL", "NS", "NL", "DS", "DL">>[(i \div 2) + 1]
IsNormT(T) == T \in {"NS", "NL"}
IsLongT(T) == T \in {"RL", "NL", "DL"}
Cap2(T) == IF IsLongT(T) THEN CAP2L ELSE CAP2S
EmptyHash == [k |-> 0, a |-> <<>>, b |-> <<>>]
InTypeContract(T, h) == /\ h.k \in 0..(NUMBS - 1) /\ Len(h.a) <= CAP1 /\ Len(h.b) <= Cap2(T)
                        /\ (IsNormT(T) => IsNormalizedHash(h))
(* the same two definitions TraceObj judges recorded histories with *)
Normalizing == {"normalize", "from_raw", "from_raw_form", "clone_normalized", "normalize_in_place",
                "dual_to_normalized", "dual_as_normalized"}
Narrowing == {"try_into_mut_short", "try_from_long"}
OpResult(op, sv, dv, dt) ==
  IF op \in Narrowing /\ Len(sv.b) > CAP2S THEN [res |-> "overflow", v |-> dv]
  ELSE [res |-> "ok", v |-> IF IsNormT(dt) \/ op \in Normalizing THEN NormalizeHash(sv) ELSE sv]

(* <<operation, source type, destination type>>: the harness's table (hist.rs OPS); the check
   compares the two tables before every run *)
Ops == <<
  <<"normalize", "RS", "NS">>, <<"normalize", "RL", "NL">>, <<"normalize", "NS", "NS">>, <<"normalize", "NL", "NL">>,
  <<"from_raw", "RS", "NS">>, <<"from_raw", "RL", "NL">>,
  <<"from_raw_form", "RS", "NS">>, <<"from_raw_form", "RL", "NL">>,
  <<"clone_normalized", "RS", "RS">>, <<"clone_normalized", "RL", "RL">>, <<"clone_normalized", "NS", "NS">>, <<"clone_normalized", "NL", "NL">>,
  <<"to_raw_form", "NS", "RS">>, <<"to_raw_form", "NL", "RL">>,
  <<"into_mut_raw_form", "NS", "RS">>, <<"into_mut_raw_form", "NL", "RL">>,
  <<"from_norm", "NS", "RS">>, <<"from_norm", "NL", "RL">>,
  <<"from_normalized", "NS", "RS">>, <<"from_normalized", "NL", "RL">>,
  <<"to_long_form", "RS", "RL">>, <<"to_long_form", "NS", "NL">>,
  <<"into_mut_long_form", "RS", "RL">>, <<"into_mut_long_form", "NS", "NL">>,
  <<"from_short", "RS", "RL">>, <<"from_short", "NS", "NL">>, <<"from_short", "NS", "RL">>,
  <<"from_short_form", "RS", "RL">>, <<"from_short_form", "NS", "NL">>,
  <<"try_into_mut_short", "RL", "RS">>, <<"try_into_mut_short", "NL", "NS">>,
  <<"try_from_long", "RL", "RS">>, <<"try_from_long", "NL", "NS">>,
  <<"normalize_in_place", "RS", "RS">>, <<"normalize_in_place", "RL", "RL">>, <<"normalize_in_place", "NS", "NS">>, <<"normalize_in_place", "NL", "NL">>,
  <<"normalize_in_place", "DS", "DS">>, <<"normalize_in_place", "DL", "DL">>,
  <<"dual_from_raw_form", "RS", "DS">>, <<"dual_from_raw_form", "RL", "DL">>,
  <<"dual_init_from_raw_form", "RS", "DS">>, <<"dual_init_from_raw_form", "RL", "DL">>,
  <<"dual_from_raw", "RS", "DS">>, <<"dual_from_raw", "RL", "DL">>,
  <<"dual_from_normalized", "NS", "DS">>, <<"dual_from_normalized", "NL", "DL">>,
  <<"dual_from_norm", "NS", "DS">>, <<"dual_from_norm", "NL", "DL">>,
  <<"dual_to_raw_form", "DS", "RS">>, <<"dual_to_raw_form", "DL", "RL">>,
  <<"dual_into_mut_raw_form", "DS", "RS">>, <<"dual_into_mut_raw_form", "DL", "RL">>,
  <<"dual_to_normalized", "DS", "NS">>, <<"dual_to_normalized", "DL", "NL">>,
  <<"dual_as_normalized", "DS", "NS">>, <<"dual_as_normalized", "DL", "NL">>,
  <<"copy", "RS", "RS">>, <<"copy", "RL", "RL">>, <<"copy", "NS", "NS">>, <<"copy", "NL", "NL">>, <<"copy", "DS", "DS">>, <<"copy", "DL", "DL">>,
  <<"clone_from", "RS", "RS">>, <<"clone_from", "RL", "RL">>, <<"clone_from", "NS", "NS">>, <<"clone_from", "NL", "NL">>, <<"clone_from", "DS", "DS">>, <<"clone_from", "DL", "DL">> >>

(* ---- the pool: strings on the borders of the representation ---- *)
Rep(c, n) == [i \in 1..n |-> c]
Ramp(n, o) == [i \in 1..n |-> (o + 5 * i) % 64]            \* no two neighbours equal: normalised
Strings == { <<>>, <<1, 2, 3>>, Rep(5, 4), Rep(0, 9),       \* run of 'A' (symbol 0 = the padding value)
             Ramp(31, 0), Ramp(32, 7), Ramp(33, 1), Ramp(64, 3),
             Ramp(30, 2) \o Rep(9, 8),                      \* a long run whose kept end is at position >= 32
             Ramp(29, 4) \o Rep(8, 3) \o Rep(0, 32),        \* 64 raw, 35 normalised, trailing 'A's
             Ramp(60, 5) \o Rep(0, 4),                      \* full length with a trailing run of 'A'
             Rep(7, 64), Rep(1, 33) }
Ks == {0, 15, 16, 30}
Pool(T) == {h \in [k : Ks, a : Strings, b : Strings] : InTypeContract(T, h)}

Types == {"RS", "RL", "NS", "NL", "DS", "DL"}
PoolOf == [T \in Types |-> Pool(T)]                        \* evaluated once
SlotsOf == [T \in Types |-> {i \in 0..11 : SlotType(i) = T}]

(* The machine is nondeterministic in (destination, value) and (operation, source, destination).
   TLC's simulator enumerates ALL successors of a state before it picks one, which for this
   machine is tens of thousands of states per step; the generator therefore draws each choice
   with RandomElement INSIDE a one-element quantifier domain (a bound variable is bound once), so
   that every step has exactly one successor.  Read `\E x \in {RandomElement(S)}` as `\E x \in S`. *)
Init == slots = [i \in 0..11 |-> EmptyHash] /\ hist = <<>>
Set == \E d \in {RandomElement(0..11)} : \E h \in {RandomElement(PoolOf[SlotType(d)])} :
         /\ slots' = [slots EXCEPT ![d] = h]
         /\ hist' = Append(hist, [op |-> "set", src |-> d, dst |-> d, h |-> h])
Do == \E i \in {RandomElement(1..Len(Ops))} :
      \E s \in {RandomElement(SlotsOf[Ops[i][2]])} :
      \E d \in {IF Ops[i][1] = "normalize_in_place" THEN s ELSE RandomElement(SlotsOf[Ops[i][3]])} :
        /\ slots' = [slots EXCEPT ![d] = OpResult(Ops[i][1], slots[s], slots[d], Ops[i][3]).v]
        /\ hist' = Append(hist, [op |-> Ops[i][1], src |-> s, dst |-> d, h |-> EmptyHash])
(* a third of the steps install a value, the others convert *)
Next == /\ Len(hist) < DEPTH
        /\ IF Len(hist) % 3 = 0 THEN Set ELSE Do
Spec == Init /\ [][Next]_<<slots, hist>>

TypeOK == \A i \in 0..11 : InTypeContract(SlotType(i), slots[i])
Emit == Len(hist) = DEPTH => PrintT("REPLAY " \o ToJson(hist))
=============================================================================
