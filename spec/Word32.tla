------------------------------- MODULE Word32 -------------------------------
(***************************************************************************)
(* Fixed-width unsigned words as two limbs <<hi, lo>> of LB bits each.    *)
(* TLC integers are 32-bit signed, so a u32 of the implementation is two  *)
(* 16-bit limbs (LB = 16).  With a small LB the same operators are        *)
(* model-checked against plain arithmetic modulo 2^(2*LB) (MCHashes).     *)
(***************************************************************************)
EXTENDS Integers, Bitwise
CONSTANT LB
LM == 2^LB

WZero == <<0, 0>>
WOf(n) == <<(n \div LM) % LM, n % LM>>          \* n >= 0 and small enough for TLC
WToNat(a) == a[1] * LM + a[2]                    \* only meaningful when it fits
WIsZero(a) == a[1] = 0 /\ a[2] = 0

WAdd(a, b) == LET s == a[2] + b[2] IN <<(a[1] + b[1] + (s \div LM)) % LM, s % LM>>
WSub(a, b) == LET d == a[2] - b[2] IN
              IF d >= 0 THEN <<(a[1] - b[1] + LM) % LM, d>>
                        ELSE <<(a[1] - b[1] - 1 + 2 * LM) % LM, d + LM>>
WInc(a) == WAdd(a, <<0, 1>>)
WShl(a, k) == LET lo == a[2] * (2^k) IN <<(a[1] * (2^k) + (lo \div LM)) % LM, lo % LM>>   \* k < LB
WXorLow(a, c) == <<a[1], a[2] ^^ c>>                                                       \* c < LM
WMod3(a) == (a[1] * (LM % 3) + a[2]) % 3

RECURSIVE Ntz1(_)
Ntz1(x) == IF x % 2 = 1 THEN 0 ELSE 1 + Ntz1(x \div 2)       \* x > 0
WNtz(a) == IF a[2] # 0 THEN Ntz1(a[2]) ELSE LB + Ntz1(a[1])  \* a # 0
=============================================================================
