------------------------------- MODULE MCRef -------------------------------
(***************************************************************************)
(* L1 = L0 at scaled constants: for every event sequence up to MAXLEN the  *)
(* incremental reference machine finalises to what the whole-sequence      *)
(* definition gives (all forms, both values of the zero-rolling-hash flag  *)
(* where admissible).                                                      *)
(***************************************************************************)
EXTENDS CtphRef, TLC
CONSTANTS K, MAXLEN
MCRollInit == [lv |-> -1]
MCRollNext(r, e) == e
MCRollLevel(r) == r.lv
MCRollIsZero(r) == r.lv = -1
MCHInit == 1 % K
MCHNext(h, e) == (h + 1) % K
Events == {[lv |-> lv] : lv \in -1..(NUM - 1)}
VARIABLES ref, hist
Init == ref = RInit /\ hist = <<>>
Next == \E e \in Events : Len(hist) < MAXLEN /\ ref' = RStep(ref, e) /\ hist' = Append(hist, e)
Spec == Init /\ [][Next]_<<ref, hist>>
RefIsDef == \A t \in BOOLEAN : \A lg \in BOOLEAN :
              \A rz \in (IF MCRollIsZero(ref.roll) THEN BOOLEAN ELSE {FALSE}) :
                RFinRz(ref, t, lg, rz) = L0FinRz(hist, t, lg, rz)
SizeIsLen == ref.size = SzOf(Len(hist))
=============================================================================
