SPECIFICATION Spec
CONSTANTS
  NUM = 3
  LEN = 4
  UNIT = 4
  SB = 4
  K = 3
  MAXLEN = 9
  RollInit <- MCRollInit
  RollNext <- MCRollNext
  RollLevel <- MCRollLevel
  RollIsZero <- MCRollIsZero
  HInit <- MCHInit
  HNext <- MCHNext
INVARIANTS RefIsDef SizeIsLen
CHECK_DEADLOCK FALSE
