------------------------------- MODULE Order -------------------------------
(***************************************************************************)
(* The documented ordering of fuzzy hashes (C16): by block size, then      *)
(* block hash 1 lexicographically by symbol value with a proper prefix     *)
(* first, then block hash 2 likewise.  ImplCmp is the implementation's     *)
(* shape (zero-padded arrays compared before the lengths).                 *)
(***************************************************************************)
EXTENDS Integers, Sequences
Sign(x) == IF x < 0 THEN -1 ELSE IF x = 0 THEN 0 ELSE 1
RECURSIVE SeqCmpFrom(_, _, _)
SeqCmpFrom(x, y, i) ==
  IF i > Len(x) /\ i > Len(y) THEN 0
  ELSE IF i > Len(x) THEN -1                \* x is a proper prefix of y
  ELSE IF i > Len(y) THEN 1
  ELSE IF x[i] # y[i] THEN Sign(x[i] - y[i])
  ELSE SeqCmpFrom(x, y, i + 1)
SeqCmp(x, y) == SeqCmpFrom(x, y, 1)
Cmp(A, B) == IF A.k # B.k THEN Sign(A.k - B.k)
             ELSE IF SeqCmp(A.a, B.a) # 0 THEN SeqCmp(A.a, B.a)
             ELSE SeqCmp(A.b, B.b)
(* implementation shape: (k, array1, len1, array2, len2) compared as a tuple *)
Pad(x, n) == [i \in 1..n |-> IF i <= Len(x) THEN x[i] ELSE 0]
ImplCmp(A, B, c1, c2) ==
  IF A.k # B.k THEN Sign(A.k - B.k)
  ELSE IF SeqCmp(Pad(A.a, c1), Pad(B.a, c1)) # 0 THEN SeqCmp(Pad(A.a, c1), Pad(B.a, c1))
  ELSE IF Len(A.a) # Len(B.a) THEN Sign(Len(A.a) - Len(B.a))
  ELSE IF SeqCmp(Pad(A.b, c2), Pad(B.b, c2)) # 0 THEN SeqCmp(Pad(A.b, c2), Pad(B.b, c2))
  ELSE Sign(Len(A.b) - Len(B.b))
=============================================================================
