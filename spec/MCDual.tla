------------------------------- MODULE MCDual -------------------------------
(***************************************************************************)
(* For EVERY raw string over SYMS up to the scaled capacity: both encoder  *)
(* routes produce the normalised string and the canonical RLE symbols;     *)
(* the block never overflows; the encoding is valid, decodes to the raw    *)
(* string, and is injective.                                               *)
(***************************************************************************)
EXTENDS Dual, TLC
CONSTANTS SYMS, DEEP
Raws == UNION {[1..n -> SYMS] : n \in 0..CAP}
VARIABLES r, done
Init == r \in Raws /\ done = FALSE
Check(raw) ==
  LET c == CompressImpl(raw)
      p == ParserRoute(raw)
      e == EncodeRle(raw)
      n == Normalize(raw) IN
  /\ Assert(c.out = n /\ p.out = n, <<"normalised part", raw, c.out, p.out, n>>)
  /\ Assert(c.rle = e /\ p.rle = e, <<"canonical rle", raw, c.rle, p.rle, e>>)
  /\ Assert(Len(e) <= RLECAP, <<"rle block overflow", raw, e>>)
  /\ Assert(ValidRle(n, e), <<"valid", raw, n, e>>)
  /\ Assert(DecodeRle(n, e) = raw, <<"lossless", raw, DecodeRle(n, e)>>)
  /\ Assert(IsNormalized(raw) <=> e = <<>>, <<"is_normalized iff empty rle", raw>>)
  (* the two ways the specification states run collapsing agree (fold / native vs recursion) *)
  /\ Assert(Normalize(raw) = NormalizeRec(raw) /\ (IsNormalized(raw) <=> IsNormalizedRec(raw)), <<"NormalizeDefsAgree", raw>>)
  /\ DEEP => Assert(\A raw2 \in Raws : (Normalize(raw2) = n /\ EncodeRle(raw2) = e) => raw2 = raw, <<"canonical / injective", raw>>)
Next == ~done /\ done' = TRUE /\ r' = r /\ Check(r)
Spec == Init /\ [][Next]_<<r, done>>
=============================================================================
