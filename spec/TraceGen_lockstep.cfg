SPECIFICATION Spec
CONSTANTS
  LB = 16
  WINDOW = 7
  SHIFT = 5
  LOCKSTEP = TRUE
INVARIANT Progress
POSTCONDITION Accepted
CHECK_DEADLOCK FALSE
