------------------------------ MODULE TraceObj ------------------------------
(***************************************************************************)
(* Trace validation of the text / object side (C04 C05 C06 C07 C11 C15     *)
(* C16): parsing, formatting, normalisation routes, dual hashes, ordering, *)
(* constructor contracts and histories of conversions over object slots    *)
(* with dirty destinations.  Types: RS RL NS NL (raw/normalised x          *)
(* short/long), DS DL (dual).  The abstract value of an object is          *)
(* [k, a, b]; for a dual object it is its RAW hash.                        *)
(***************************************************************************)
EXTENDS ParserMachine, Order, Word32, TraceBase, FiniteSets
Msg == INSTANCE Messages
CONSTANT STRICT            \* the build under test uses the strict parser
VARIABLES l, slots
vars == <<l, slots>>
Ev(k) == l <= NRec /\ Rec[l].ev = k
E == Rec[l]
Stateless == l' = l + 1 /\ UNCHANGED slots
Init == l = 1 /\ slots = <<>>

Types == {"RS", "RL", "NS", "NL", "DS", "DL"}
Kind(T) == [norm |-> T \in {"NS", "NL"}, long |-> T \in {"RL", "NL", "DL"}, dual |-> T \in {"DS", "DL"}]
IsNormT(T) == T \in {"NS", "NL"}
IsLongT(T) == T \in {"RL", "NL", "DL"}
Cap2(T) == IF IsLongT(T) THEN CAP2L ELSE CAP2S
H(x) == [k |-> x.k, a |-> x.a, b |-> x.b]
AllEq(obj, v) == \A f \in DOMAIN obj : obj[f] = v
SENTINEL == 4242
(* reported, never a verdict: behaviour the properties do not state (parse error kind / offset) *)
Drift(cond, info) == IF cond THEN TRUE ELSE PrintT("DRIFT " \o ToJson(info))

(* ------------------------------ C04: parsing ------------------------------ *)
ParseOk(T, r, t) ==
  LET p == Parse(Kind(T), STRICT, t) IN
  IF p.ok
  THEN /\ r.ok = "ok" /\ H(r) = p.h /\ r.valid = TRUE /\ r.idx = p.end
       /\ r.fb = "same" /\ r.fs \in {"same", "na"}
       (* C05: text -> object -> text: raw kinds reproduce the text up to the comma,
          normalising kinds give the run-collapsed text *)
       /\ r.txt = (IF IsNormT(T) THEN Format(p.h) ELSE SubSeq(t, 1, p.end))
       /\ (Kind(T).dual => r.ntxt = Format(NormalizeHash(p.h)) /\ r.nvalid = TRUE)
  ELSE /\ r.ok = "err" /\ r.origin = p.origin /\ r.idx = SENTINEL
       /\ r.fb = "same" /\ r.fs \in {"same", "na"}
       (* the implementation-shaped parser machine also predicts the error kind and offset *)
       /\ LET m == PParse(Kind(T), STRICT, t) IN
          Drift(~m.ok /\ m.origin = p.origin /\ r.kind = m.kind /\ r.off = m.off, <<"parse-error-kind-offset", T, t, m>>)
       (* and the displayed text is the one built from the predicted kind, origin and offset *)
       /\ LET m == PParse(Kind(T), STRICT, t) IN
          Drift(m.ok \/ r.msg = Msg!ParseErrorMsg(m.kind, m.origin, m.off), <<"parse-error-message", T, t>>)
EvParse == /\ Ev("parse")
           /\ \A T \in Types :
                Expect(T \in DOMAIN E.r /\ ParseOk(T, E.r[T], E.t), <<l, "parse", T, Parse(Kind(T), STRICT, E.t)>>)
           /\ Stateless

(* ------------------------------ C05: formatting --------------------------- *)
EvFmt == /\ Ev("fmt")
         /\ LET h == H(E.h)
                f == Format(h) IN
            /\ Expect(E.txt = f /\ E.disp = f /\ E.from = f, <<l, "fmt-text", f>>)
            /\ Expect(E.len = Len(f) /\ E.len = LenInStr(h) /\ E.max = MaxLenInStr(IsLongT(E.T))
                      /\ E.len <= E.max /\ E.gmax = MaxLenInStr(TRUE), <<l, "fmt-len", Len(f), MaxLenInStr(IsLongT(E.T))>>)
            /\ Expect(\A i \in 1..Len(E.bufs) :
                        IF E.bufs[i].n < Len(f)
                        THEN E.bufs[i].r = -1 /\ E.bufs[i].untouched = TRUE
                        ELSE E.bufs[i].r = Len(f) /\ E.bufs[i].out = f, <<l, "fmt-buffer">>)
            /\ Expect(E.back = TRUE, <<l, "fmt-roundtrip">>)
         /\ Stateless

(* ------------------------------ C06: normalisation ------------------------ *)
EvNorm == /\ Ev("norm")
          /\ LET h == H(E.h)
                 n == NormalizeHash(h) IN
             (* the strict parser refuses a text whose RAW block hash exceeds the capacity of the type
                it is parsed into, even when the run-collapsed one would fit: the two short text routes
                must then fail (recorded as k = -1) instead of normalising *)
             /\ Expect(\A f \in DOMAIN E.routes :
                          IF STRICT /\ f \in {"short_parse", "short_from_bytes"} /\ Len(h.b) > CAP2S
                          THEN E.routes[f].k = -1
                          ELSE H(E.routes[f]) = n /\ E.routes[f].valid = TRUE /\ E.routes[f].isn = TRUE, <<l, "norm-routes", n>>)
             /\ Expect("normalize" \in DOMAIN E.routes /\ "in_place" \in DOMAIN E.routes /\ "parse" \in DOMAIN E.routes
                       /\ "dual" \in DOMAIN E.routes, <<l, "norm-routes-present">>)
             /\ Expect(E.isn_raw = IsNormalizedHash(h), <<l, "norm-isnormalized", IsNormalizedHash(h)>>)
             /\ Expect(E.unchanged = (n = h), <<l, "norm-unchanged-iff-normalized">>)
          /\ Stateless

(* ------------------------------ C07: dual hashes -------------------------- *)
EvDual == /\ Ev("dual")
          /\ LET h == H(E.h)
                 n == NormalizeHash(h) IN
             /\ Expect(\A f \in DOMAIN E.routes :
                         LET r == E.routes[f] IN
                         /\ r.valid = TRUE /\ H(r.raw) = h /\ H(r.rawmut) = h /\ H(r.norm) = n /\ H(r.asnorm) = n
                         /\ r.rawstr = Format(h) /\ r.normstr = Format(n)
                         /\ r.disp = <<123>> \o Format(n) \o <<124>> \o Format(h) \o <<125>>   \* Display: "{norm|raw}"
                         /\ r.isn = IsNormalizedHash(h), <<l, "dual-routes", n>>)
             /\ Expect(E.alleq = TRUE /\ E.allcmpeq = TRUE /\ E.allhasheq = TRUE, <<l, "dual-routes-equal">>)
             /\ Expect("from_raw_form" \in DOMAIN E.routes /\ "parse" \in DOMAIN E.routes
                       /\ "internals" \in DOMAIN E.routes /\ "init_dirty" \in DOMAIN E.routes, <<l, "dual-routes-present">>)
             (* clearing the reverse-normalisation data gives the dual of the normalised hash *)
             /\ Expect(E.nip_eq_fromnorm = TRUE /\ E.nip_eq_fromrawnorm = TRUE /\ E.nip_isn = TRUE
                       /\ E.nip_valid = TRUE /\ H(E.nip_raw) = n, <<l, "dual-normalize-in-place">>)
          /\ Stateless

(* ------------------------------ C16: equality, hashing, ordering ---------- *)
EvOrd == /\ Ev("ord")
         /\ LET A == H(E.A)  B == H(E.B)
                c == Cmp(A, B) IN
            /\ Expect(E.eq = (A = B) /\ E.ne = (A # B), <<l, "ord-eq", A = B>>)
            /\ Expect(E.cmp = c /\ E.pcmp = c /\ E.rcmp = -c, <<l, "ord-cmp", c>>)
            /\ Expect((A = B) => (E.hasheq = TRUE /\ E.dhasheq = TRUE), <<l, "ord-hash">>)
            /\ Expect(E.cbs = Sign(A.k - B.k), <<l, "ord-by-block-size">>)
            (* the block size relation between two hash objects, and the array-level observers
               (outside C16: reported as drift, not as a verdict) *)
            /\ LET r == IF A.k = B.k THEN "NearEq" ELSE IF A.k + 1 = B.k THEN "NearLt"
                        ELSE IF A.k = B.k + 1 THEN "NearGt" ELSE "Far" IN
               Drift(E.rel = r /\ E.near = <<r # "Far", r = "NearEq", r = "NearLt", r = "NearGt">>, <<l, "ord-block-size-relation", r>>)
            /\ Drift(/\ E.len1 = Len(A.a) /\ E.len2 = Len(A.b)
                      /\ E.arr1 = A.a \o [i \in 1..(Len(E.arr1) - Len(A.a)) |-> 0]
                      /\ E.arr2 = A.b \o [i \in 1..(Len(E.arr2) - Len(A.b)) |-> 0]
                      /\ Len(E.arr1) = CAP1 /\ Len(E.arr2) = (IF IsLongT(E.T) THEN CAP2L ELSE CAP2S), <<l, "ord-array-observers">>)
         /\ Stateless
IsPerm(x, y) == /\ Len(x) = Len(y)
                /\ \A i \in 1..Len(x) : Cardinality({j \in 1..Len(x) : x[j] = x[i]}) = Cardinality({j \in 1..Len(y) : y[j] = x[i]})
EvSort == /\ Ev("sort")
          /\ LET out == [i \in 1..Len(E.out) |-> H(E.out[i])]
                 inp == [i \in 1..Len(E.in) |-> H(E.in[i])] IN
             /\ Expect(\A i \in 1..(Len(out) - 1) : Cmp(out[i], out[i + 1]) <= 0, <<l, "sort-order">>)
             /\ Expect(IsPerm(inp, out), <<l, "sort-permutation">>)
          /\ Stateless
(* dual ordering: the matrix m[i][j] = cmp(d_i, d_j) recorded over a family of raw hashes *)
EvDualOrd == /\ Ev("dualord")
             /\ LET n == Len(E.fam)
                    R(i) == H(E.fam[i])
                    N(i) == NormalizeHash(R(i)) IN
                /\ Expect(\A i, j \in 1..n : Cmp(N(i), N(j)) # 0 => E.m[i][j] = Cmp(N(i), N(j)), <<l, "dualord-normalized-parts">>)
                /\ Expect(\A i, j \in 1..n : (E.m[i][j] = 0) <=> (R(i) = R(j)), <<l, "dualord-equal-iff-raw-equal">>)
                /\ Expect(\A i, j \in 1..n : E.m[i][j] = -E.m[j][i], <<l, "dualord-antisymmetry">>)
                /\ Expect(\A i, j, k \in 1..n : (E.m[i][j] <= 0 /\ E.m[j][k] <= 0) => E.m[i][k] <= 0, <<l, "dualord-transitivity">>)
                /\ Expect(\A i, j \in 1..n : E.eq[i][j] = (R(i) = R(j)), <<l, "dualord-eq">>)
                /\ Expect(\A i, j \in 1..n : R(i) = R(j) => E.heq[i][j] = TRUE, <<l, "dualord-hash">>)
                /\ Expect(E.m = E.m2, <<l, "dualord-deterministic">>)
             /\ Stateless


(* ------------------------------ C11 / C15: object histories --------------- *)
(* slots 0..11, two per type in the order RS RS RL RL NS NS NL NL DS DS DL DL *)
SlotType(i) == <<"RS", "RL", "NS", "NL", "DS", "DL">>[(i \div 2) + 1]
EmptyHash == [k |-> 0, a |-> <<>>, b |-> <<>>]
EvHNew == Ev("hnew") /\ slots' = [i \in 0..11 |-> EmptyHash] /\ l' = l + 1
Normalizing == {"normalize", "from_raw", "from_raw_form", "clone_normalized", "normalize_in_place",
                "dual_to_normalized", "dual_as_normalized"}
Narrowing == {"try_into_mut_short", "try_from_long"}
InTypeContract(T, h) == /\ h.k \in 0..(NUMBS - 1) /\ Len(h.a) <= CAP1 /\ Len(h.b) <= Cap2(T)
                        /\ \A i \in 1..Len(h.a) : h.a[i] \in 0..63
                        /\ \A j \in 1..Len(h.b) : h.b[j] \in 0..63
                        /\ (IsNormT(T) => IsNormalizedHash(h))
(* the value the destination must hold after the operation, and the expected result *)
OpResult(op, sv, dv, dt) ==
  IF op \in Narrowing /\ Len(sv.b) > CAP2S THEN [res |-> "overflow", v |-> dv]      \* destination untouched
  ELSE [res |-> "ok", v |-> IF IsNormT(dt) \/ op \in Normalizing THEN NormalizeHash(sv) ELSE sv]
ObsOk(o, v) == /\ H(o) = v /\ o.valid = TRUE /\ o.fulleq = TRUE /\ o.dbg = TRUE /\ o.txt = Format(v)
               /\ o.isn = IsNormalizedHash(v)
EvOp == /\ Ev("op")
        /\ Expect(E.dt = SlotType(E.dst) /\ E.st = SlotType(E.src), <<l, "op-slot-types">>)
        /\ CASE E.op = "set" ->
                 /\ Expect(InTypeContract(E.dt, H(E.h)) => (E.res = "ok" /\ ObsOk(E.obs, H(E.h))), <<l, "op-set", H(E.h)>>)
                 /\ slots' = [slots EXCEPT ![E.dst] = IF E.res = "ok" THEN H(E.h) ELSE @]
             [] E.op = "parse" ->
                 LET p == Parse(Kind(E.dt), STRICT, E.t) IN
                 /\ Expect(IF p.ok THEN E.res = "ok" /\ ObsOk(E.obs, p.h) ELSE E.res = "err" /\ ObsOk(E.obs, slots[E.dst]),
                           <<l, "op-parse", p>>)
                 /\ slots' = [slots EXCEPT ![E.dst] = IF p.ok THEN p.h ELSE @]
             [] E.op = "gen" ->          \* the generator's output is judged by C01; here it is a source
                 /\ Expect(E.res = "ok" /\ ObsOk(E.obs, H(E.obs)), <<l, "op-gen">>)
                 /\ slots' = [slots EXCEPT ![E.dst] = H(E.obs)]
             [] OTHER ->
                 LET r == OpResult(E.op, slots[E.src], slots[E.dst], E.dt) IN
                 /\ Expect(E.res = r.res /\ ObsOk(E.obs, r.v), <<l, "op", E.op, r>>)
                 /\ slots' = [slots EXCEPT ![E.dst] = r.v]
        /\ l' = l + 1

(* ------------------------------ C11: constructor contracts ---------------- *)
RECURSIVE WDouble(_, _)
WDouble(x, n) == IF n = 0 THEN x ELSE CHOOSE r \in {WAdd(y, y) : y \in {WDouble(x, n - 1)}} : TRUE
BS(n) == WDouble(<<0, 3>>, n)
BSTable == [n \in 0..(NUMBS - 1) |-> BS(n)]
Take(s, n) == SubSeq(s, 1, IF Len(s) < n THEN Len(s) ELSE n)
PadTo(s, n) == [i \in 1..n |-> IF i <= Len(s) THEN s[i] ELSE 0]
CtorArgs(T, f, e) ==
  LET arrayform == f \in {"new_from_internals_raw", "init_from_internals_raw"}
      kOk == IF f = "new_from_internals" THEN \E n \in 0..(NUMBS - 1) : BSTable[n] = e.bs ELSE e.log < NUMBS
      k   == IF f = "new_from_internals"
             THEN (IF kOk THEN CHOOSE n \in 0..(NUMBS - 1) : BSTable[n] = e.bs ELSE 0) ELSE e.log
      arr1 == PadTo(Take(e.a, CAP1), CAP1)
      arr2 == PadTo(Take(e.b, Cap2(T)), Cap2(T))
      a == IF arrayform THEN SubSeq(arr1, 1, IF e.l1 <= CAP1 THEN e.l1 ELSE CAP1) ELSE e.a
      b == IF arrayform THEN SubSeq(arr2, 1, IF e.l2 <= Cap2(T) THEN e.l2 ELSE Cap2(T)) ELSE e.b
      tailOk == ~arrayform \/ ( (e.l1 <= CAP1) /\ (e.l2 <= Cap2(T))
                                 /\ (\A i \in (e.l1 + 1)..CAP1 : arr1[i] = 0)
                                 /\ (\A j \in (e.l2 + 1)..Cap2(T) : arr2[j] = 0) )
      symsOk == (\A i \in 1..Len(a) : a[i] < 64) /\ (\A j \in 1..Len(b) : b[j] < 64)
      lenOk == Len(a) <= CAP1 /\ Len(b) <= Cap2(T)
      normOk == ~IsNormT(T) \/ (IsNormalized(a) /\ IsNormalized(b))
  IN [ok |-> kOk /\ tailOk /\ symsOk /\ lenOk /\ normOk, v |-> [k |-> k, a |-> a, b |-> b]]
EvCtor == /\ Ev("ctor")
          /\ LET c == CtorArgs(E.T, E.fn, E) IN
             Expect(IF c.ok THEN E.res = "ok" /\ ObsOk(E.obs, c.v)
                                 (* C14: the unchecked constructor, called only when the contract holds *)
                                 /\ (E.uobs.present => ObsOk(E.uobs, c.v))
                    ELSE E.res = "panic" \/ (E.obs.valid = TRUE /\ E.obs.dbg = TRUE),   \* never a corrupted object
                    <<l, "ctor", c>>)
          /\ Stateless

(* the position array's initialiser: in contract (at most CAP1 symbols, all below 64) it succeeds and
   the array is valid with that length; out of contract it panics -- a call that RETURNS never
   leaves a corrupted array *)
EvPCtor == /\ Ev("pctor")
           /\ Expect((E.len <= CAP1 /\ E.bad_at = -1) => (E.res = "ok" /\ E.valid = TRUE /\ E.len_after = E.len), <<l, "pctor-in-contract">>)
           /\ Expect(E.res = "ok" => E.valid = TRUE, <<l, "pctor-returned-a-corrupted-array">>)
           /\ Stateless

Next == EvPCtor \/ EvHNew \/ EvOp \/ EvCtor \/ EvParse \/ EvFmt \/ EvNorm \/ EvDual \/ EvOrd \/ EvSort \/ EvDualOrd
Spec == Init /\ [][Next]_vars
Progress == Mark(l)
=============================================================================
