----------------------------- MODULE TraceBase -----------------------------
(***************************************************************************)
(* Mechanics shared by all trace specifications: the recorded trace, the   *)
(* position in it, and the acceptance condition.  A trace spec consumes    *)
(* one recorded event (or one byte of an update event) per step; an event  *)
(* whose recorded observation differs from what the specification allows   *)
(* disables the step, prints one MISMATCH line (event number, what the     *)
(* specification expected) and the trace is rejected at that event.        *)
(***************************************************************************)
EXTENDS Json, IOUtils, TLC, Sequences, Integers
Rec == ndJsonDeserialize(IOEnv.TRACE)
NRec == Len(Rec)
(* IF, not \/: inside an action TLC would explore both disjuncts *)
Expect(cond, info) == IF cond THEN TRUE ELSE PrintT("MISMATCH " \o ToJson(info)) /\ FALSE
(* register 1: the furthest event index reached (single worker) *)
Mark(l) == TLCSet(1, l)
Accepted == IF TLCGet(1) = NRec + 1 THEN TRUE
            ELSE /\ PrintT("REJECTED-AT " \o ToString(TLCGet(1)))
                 /\ FALSE
=============================================================================
