SPECIFICATION Spec
CONSTANTS
  MAXRUN = 3
  NUMBS = 31
  CAP1 = 64
  CAP2S = 32
  CAP2L = 64
  KS = {0, 1, 15, 30}
  SYMS = {0, 63}
  L1 = 5
  L2 = 4
INVARIANT BlockSizeTextsDistinct
CHECK_DEADLOCK FALSE
