-------------------------------- MODULE Text --------------------------------
(***************************************************************************)
(* The text form of fuzzy hashes (C04, C05): the base64 alphabet, the      *)
(* canonical decimal block sizes, the formatter and the GRAMMAR            *)
(*   <block size>:<base64 chars>:<base64 chars>[,<anything>]               *)
(* as a declarative parser.  Texts are sequences of byte values 0..255.    *)
(* CAP1 / CAP2S / CAP2L are the capacities (64 / 32 / 64).                 *)
(***************************************************************************)
EXTENDS BlockHash, SequencesExt
CONSTANTS NUMBS, CAP1, CAP2S, CAP2L

COLON == 58
COMMA == 44
(* "ABCDEFGHIJKLMNOPQRSTUVWXYZabcdefghijklmnopqrstuvwxyz0123456789+/" *)
B64 == [i \in 1..64 |-> IF i <= 26 THEN 64 + i ELSE IF i <= 52 THEN 70 + i
                        ELSE IF i <= 62 THEN i - 5 ELSE IF i = 63 THEN 43 ELSE 47]
IsB64(c) == (c >= 65 /\ c <= 90) \/ (c >= 97 /\ c <= 122) \/ (c >= 48 /\ c <= 57) \/ c = 43 \/ c = 47
B64Value(c) == IF c >= 65 /\ c <= 90 THEN c - 65 ELSE IF c >= 97 /\ c <= 122 THEN c - 71
               ELSE IF c >= 48 /\ c <= 57 THEN c + 4 ELSE IF c = 43 THEN 62 ELSE 63
IsDigit(c) == c >= 48 /\ c <= 57

(* decimal digits (most significant first) of 3 * 2^n, by repeated doubling of a digit list *)
RECURSIVE DoubleDigits(_, _, _)
DoubleDigits(ds, i, carry) ==          \* ds least significant first
  IF i > Len(ds) THEN (IF carry = 0 THEN <<>> ELSE <<carry>>)
  ELSE LET v == 2 * ds[i] + carry IN <<v % 10>> \o DoubleDigits(ds, i + 1, v \div 10)
RECURSIVE Dec3Pow(_)
Dec3Pow(n) == IF n = 0 THEN <<3>>
              ELSE CHOOSE r \in {DoubleDigits(d, 1, 0) : d \in {Dec3Pow(n - 1)}} : TRUE
RevSeq(s) == [i \in 1..Len(s) |-> s[Len(s) + 1 - i]]
BlockSizeText == [n \in 0..(NUMBS - 1) |-> [i \in 1..Len(Dec3Pow(n)) |-> 48 + RevSeq(Dec3Pow(n))[i]]]

(* ------------------------------ formatter ------------------------------ *)
Enc(s) == [i \in 1..Len(s) |-> B64[s[i] + 1]]
Format(h) == BlockSizeText[h.k] \o <<COLON>> \o Enc(h.a) \o <<COLON>> \o Enc(h.b)
LenInStr(h) == Len(BlockSizeText[h.k]) + Len(h.a) + Len(h.b) + 2
MaxLenInStr(long) == Len(BlockSizeText[NUMBS - 1]) + CAP1 + (IF long THEN CAP2L ELSE CAP2S) + 2

(* ------------------------------ grammar -------------------------------- *)
(* first index >= i whose byte does not satisfy the class (Len(t) + 1 if none): one left fold over
   the text (evaluated natively by TLC, so texts of 2^16 bytes and more can be validated) *)
InClass(c, digits) == IF digits THEN IsDigit(c) ELSE IsB64(c)
SpanEnd(t, i, digits) ==
  LET step(acc, c) == [at  |-> acc.at + 1,
                       end |-> IF acc.end # 0 \/ acc.at < i \/ InClass(c, digits) THEN acc.end ELSE acc.at]
      r == FoldLeft(step, [at |-> 1, end |-> 0], t)
  IN IF r.end = 0 THEN (IF i > Len(t) THEN i ELSE Len(t) + 1) ELSE r.end
(* the same by recursion (reference; MCText: SpanEndDefsAgree) *)
RECURSIVE SpanEndRec(_, _, _)
SpanEndRec(t, i, digits) == IF i > Len(t) THEN i
                            ELSE IF InClass(t[i], digits) THEN SpanEndRec(t, i + 1, digits)
                            ELSE i
Decode(t, i, j) == [x \in 1..(j - i + 1) |-> B64Value(t[i + x - 1])]
Err(origin) == [ok |-> FALSE, origin |-> origin]
(* kind = [norm |-> BOOLEAN, long |-> BOOLEAN, dual |-> BOOLEAN];
   strict = the strict-parser build.  The capacity is counted after run collapsing for
   the normalising plain types under the default parser, on the raw text otherwise. *)
Parse(kind, strict, t) ==
  LET n == SpanEnd(t, 1, TRUE) - 1 IN
  IF n = Len(t) \/ t[n + 1] # COLON \/ ~(\E k \in 0..(NUMBS - 1) : SubSeq(t, 1, n) = BlockSizeText[k])
  THEN Err("BlockSize")
  ELSE
    LET k    == CHOOSE kk \in 0..(NUMBS - 1) : SubSeq(t, 1, n) = BlockSizeText[kk]
        s1   == n + 2
        q1   == SpanEnd(t, s1, FALSE)
        raw1 == Decode(t, s1, q1 - 1)
        collapse == kind.norm /\ ~kind.dual /\ ~strict
        cnt1 == IF collapse THEN Normalize(raw1) ELSE raw1
    IN IF Len(cnt1) > CAP1 \/ q1 > Len(t) \/ t[q1] # COLON THEN Err("BlockHash1")
       ELSE
         LET s2   == q1 + 1
             q2   == SpanEnd(t, s2, FALSE)
             raw2 == Decode(t, s2, q2 - 1)
             cnt2 == IF collapse THEN Normalize(raw2) ELSE raw2
             cap2 == IF kind.long THEN CAP2L ELSE CAP2S
         IN IF Len(cnt2) > cap2 \/ (q2 <= Len(t) /\ t[q2] # COMMA) THEN Err("BlockHash2")
            ELSE [ok  |-> TRUE,
                  h   |-> [k |-> k,
                           a |-> IF kind.norm /\ ~kind.dual THEN Normalize(raw1) ELSE raw1,
                           b |-> IF kind.norm /\ ~kind.dual THEN Normalize(raw2) ELSE raw2],
                  end |-> q2 - 1]          \* 0-based offset of the comma, or the length
=============================================================================
