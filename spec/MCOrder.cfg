SPECIFICATION Spec
CONSTANTS
  KS = {0, 1}
  SYMS = {0, 1, 2}
  L1 = 2
  L2 = 2
CHECK_DEADLOCK FALSE
