SPECIFICATION Spec
INVARIANT Emit
CONSTANTS DEPTH = 40
CHECK_DEADLOCK FALSE
