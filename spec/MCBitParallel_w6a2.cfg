SPECIFICATION Spec
CONSTANTS
  MAXRUN = 3
  WIN = 3
  FULL = 6
  NUMBS = 31
  W = 6
  SYMS = {0, 1}
  DEEP = TRUE
CHECK_DEADLOCK FALSE
