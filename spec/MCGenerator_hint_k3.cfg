SPECIFICATION Spec
CONSTANTS
  NUM = 3
  LEN = 4
  UNIT = 4
  SB = 4
  K = 3
  MAXRESETS = 0
  FIXEDMODE = TRUE
  SLICES = {}
  RollInit <- MCRollInit
  RollNext <- MCRollNext
  RollLevel <- MCRollLevel
  RollIsZero <- MCRollIsZero
  HInit <- MCHInit
  HNext <- MCHNext
INVARIANTS Agree SizeOK RangeOK
CONSTRAINT SizeBound
CHECK_DEADLOCK FALSE
