-------------------------------- MODULE Dual --------------------------------
(***************************************************************************)
(* Dual fuzzy hashes (C07): a normalised block hash plus an RLE block from *)
(* which the raw block hash is reconstructed.                              *)
(*   RLE symbol [pos, len]: "len (1..RUNMAX) more copies of the symbol at  *)
(*   normalised position pos (0-based; the LAST kept symbol of its run)".  *)
(* Declarative: EncodeRle / DecodeRle / ValidRle.  Implementation-shaped:  *)
(* CompressImpl (compress_block_hash_with_rle + update_rle_block) and      *)
(* ParserRoute (the run callback of the text parser).  MCDual checks them  *)
(* against each other on the complete scaled domain.                       *)
(***************************************************************************)
EXTENDS BlockHash, FiniteSets
CONSTANTS RUNMAX,          \* 4: maximum extension per RLE symbol
          CAP,             \* capacity of the block hash (64 / 32)
          RLECAP           \* capacity of the RLE block (CAP / 4)

(* ---------------- declarative encoding --------------------------------- *)
RECURSIVE RunsAcc(_, _, _)
RunsAcc(s, i, acc) ==                   \* runs of s as a sequence of [c, n]
  IF i > Len(s) THEN acc
  ELSE IF Len(acc) > 0 /\ acc[Len(acc)].c = s[i]
       THEN RunsAcc(s, i + 1, [acc EXCEPT ![Len(acc)].n = @ + 1])
       ELSE RunsAcc(s, i + 1, Append(acc, [c |-> s[i], n |-> 1]))
Runs(s) == RunsAcc(s, 1, <<>>)
RECURSIVE RunSymbols(_, _)
RunSymbols(pos, extra) == IF extra <= RUNMAX THEN <<[pos |-> pos, len |-> extra]>>
                          ELSE <<[pos |-> pos, len |-> RUNMAX]>> \o RunSymbols(pos, extra - RUNMAX)
RECURSIVE EncodeRuns(_, _, _)
EncodeRuns(rs, i, npos) ==              \* npos = normalised length before run i
  IF i > Len(rs) THEN <<>>
  ELSE (IF rs[i].n > MAXRUN THEN RunSymbols(npos + MAXRUN - 1, rs[i].n - MAXRUN) ELSE <<>>)
       \o EncodeRuns(rs, i + 1, npos + (IF rs[i].n > MAXRUN THEN MAXRUN ELSE rs[i].n))
EncodeRle(raw) == EncodeRuns(Runs(raw), 1, 0)

RECURSIVE ExtraAt(_, _, _), ExtraTotal(_, _)
ExtraAt(rle, p, j) == IF j = 0 THEN 0 ELSE ExtraAt(rle, p, j - 1) + (IF rle[j].pos = p THEN rle[j].len ELSE 0)
ExtraTotal(rle, j) == IF j = 0 THEN 0 ELSE ExtraTotal(rle, j - 1) + rle[j].len
RECURSIVE DecodeFrom(_, _, _)
DecodeFrom(norm, rle, i) ==
  IF i > Len(norm) THEN <<>>
  ELSE <<norm[i]>> \o [x \in 1..ExtraAt(rle, i - 1, Len(rle)) |-> norm[i]] \o DecodeFrom(norm, rle, i + 1)
DecodeRle(norm, rle) == DecodeFrom(norm, rle, 1)

(* the conditions of is_valid_rle_block_for_block_hash, on the symbol sequence *)
ValidRle(norm, rle) ==
  /\ Len(rle) <= RLECAP
  /\ \A j \in 1..Len(rle) :
       /\ rle[j].len \in 1..RUNMAX
       /\ rle[j].pos >= MAXRUN - 1 /\ rle[j].pos < Len(norm)
       /\ (j > 1 => rle[j].pos >= rle[j - 1].pos)
       /\ (j > 1 /\ rle[j].pos = rle[j - 1].pos => rle[j - 1].len = RUNMAX)
       /\ (rle[j].pos >= MAXRUN - 1 /\ rle[j].pos < Len(norm) =>
             \A d \in 0..(MAXRUN - 1) : norm[rle[j].pos + 1 - d] = norm[rle[j].pos + 1])
  /\ Len(norm) + ExtraTotal(rle, Len(rle)) <= CAP

(* ---------------- implementation-shaped encoders ------------------------ *)
(* update_rle_block(pos, len): len = raw run length > MAXRUN *)
UpdateRle(rle, pos, runlen) ==
  LET e == runlen - MAXRUN - 1
      RECURSIVE Fill(_)
      Fill(n) == IF n = 0 THEN <<>> ELSE <<[pos |-> pos, len |-> RUNMAX]>> \o Fill(n - 1)
  IN rle \o Fill(e \div RUNMAX) \o <<[pos |-> pos, len |-> (e % RUNMAX) + 1]>>
NOCHAR == -1
(* compress_block_hash_with_rle *)
RECURSIVE CompressLoop(_, _, _)
CompressLoop(raw, i, st) ==
  IF i > Len(raw)
  THEN [out |-> st.out,
        rle |-> IF st.seq >= MAXRUN THEN UpdateRle(st.rle, Len(st.out) - 1, st.seq + 1) ELSE st.rle]
  ELSE LET curr == raw[i] IN
       IF curr = st.prev
       THEN IF st.seq + 1 >= MAXRUN
            THEN CompressLoop(raw, i + 1, [st EXCEPT !.seq = st.seq + 1])
            ELSE CompressLoop(raw, i + 1, [st EXCEPT !.seq = st.seq + 1, !.out = Append(st.out, curr)])
       ELSE LET rle1 == IF st.seq >= MAXRUN THEN UpdateRle(st.rle, Len(st.out) - 1, st.seq + 1) ELSE st.rle IN
            CompressLoop(raw, i + 1, [out |-> Append(st.out, curr), rle |-> rle1, seq |-> 0, prev |-> curr])
CompressImpl(raw) == CompressLoop(raw, 1, [out |-> <<>>, rle |-> <<>>, seq |-> 0, prev |-> NOCHAR])
(* the normalising text parser with its run callback(seq_start, len) -> update(pos + MAXRUN - 1, len) *)
RECURSIVE ParserLoop(_, _, _)
ParserLoop(raw, index, st) ==       \* index 0-based as in the code
  IF index >= Len(raw)
  THEN [out |-> st.out,
        rle |-> IF st.seq = MAXRUN THEN UpdateRle(st.rle, st.start + MAXRUN - 1, index - st.startin) ELSE st.rle]
  ELSE LET curr == raw[index + 1] IN
       IF curr = st.prev
       THEN IF st.seq + 1 >= MAXRUN
            THEN ParserLoop(raw, index + 1, [st EXCEPT !.seq = MAXRUN])
            ELSE ParserLoop(raw, index + 1, [st EXCEPT !.seq = st.seq + 1, !.out = Append(st.out, curr)])
       ELSE LET rle1 == IF st.seq = MAXRUN THEN UpdateRle(st.rle, st.start + MAXRUN - 1, index - st.startin) ELSE st.rle IN
            ParserLoop(raw, index + 1, [out |-> Append(st.out, curr), rle |-> rle1, seq |-> 0,
                                        start |-> Len(st.out), startin |-> index, prev |-> curr])
ParserRoute(raw) == ParserLoop(raw, 0, [out |-> <<>>, rle |-> <<>>, seq |-> 0, start |-> 0, startin |-> 0, prev |-> NOCHAR])
=============================================================================
