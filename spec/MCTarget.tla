------------------------------ MODULE MCTarget ------------------------------
(***************************************************************************)
(* C17 at scaled constants: a position array that is re-initialised any    *)
(* number of times (init_from = clear masks, then OR the new bits in;      *)
(* clear) always equals the fresh array of the last string, is valid, is   *)
(* equivalent to that string only, and answers distance / common-substring *)
(* queries like a fresh one.  Every string over SYMS up to W, every        *)
(* history (the state is the array itself, so all histories are covered    *)
(* by the reachable-state invariant).                                      *)
(***************************************************************************)
EXTENDS BitParallel, TLC
Strs == UNION {[1..n -> SYMS] : n \in 0..W}
VARIABLES pa, len, last
Init == pa = PAClear /\ len = 0 /\ last = <<>>
InitFrom == \E s \in Strs : pa' = PAOrInto(PAClear, s) /\ len' = Len(s) /\ last' = s
Clear == pa' = PAClear /\ len' = 0 /\ last' = <<>>
Next == InitFrom \/ Clear
Spec == Init /\ [][Next]_<<pa, len, last>>
FreshEq == pa = PA(last) /\ len = Len(last)
Valid == PAValid(pa, len)
EquivOnlyLast == \A s \in Strs : PAEquiv(pa, len, s) <=> s = last
NormAgree == PANormalized(pa) <=> IsNormalized(last)
=============================================================================
