"""Per-property decision procedures (DESIGN.md section 5)."""
import glob, json, os, shutil, subprocess, sys, time
from vlib import *


# ======================================================================= generator family
GEN_MC = {
    "C01": {"quick": [("ref_n2", "MCRef.tla", "MCRef_n2.cfg"), ("gen_quick", "MCGenerator.tla", "MCGenerator_quick.cfg")],
            "thorough": [("ref_n2", "MCRef.tla", "MCRef_n2.cfg"), ("ref_n3", "MCRef.tla", "MCRef_n3.cfg"), ("ref_n3_l6", "MCRef.tla", "MCRef_n3_l6.cfg"),
                         ("gen_k3", "MCGenerator.tla", "MCGenerator_k3.cfg"), ("gen_n4l6_sim", "MCGenerator.tla", "MCGenerator_n4l6_sim.cfg", "num=40000 -depth 150")]},
    "C03": {"quick": [("gen_quick", "MCGenerator.tla", "MCGenerator_quick.cfg")],
            "thorough": [("gen_k3", "MCGenerator.tla", "MCGenerator_k3.cfg"), ("gen_n4l6_sim", "MCGenerator.tla", "MCGenerator_n4l6_sim.cfg", "num=40000 -depth 150")]},
    "C12": {"quick": [("gen_reset", "MCGenerator.tla", "MCGenerator_reset.cfg"), ("gen_hint", "MCGenerator.tla", "MCGenerator_hint.cfg")],
            "thorough": [("gen_reset", "MCGenerator.tla", "MCGenerator_reset.cfg"), ("gen_hint", "MCGenerator.tla", "MCGenerator_hint.cfg"), ("gen_n4l6_sim", "MCGenerator.tla", "MCGenerator_n4l6_sim.cfg", "num=40000 -depth 150")]},
    "C18": {"quick": [("stream", "MCStream.tla", "MCStream.cfg")], "thorough": [("stream", "MCStream.tla", "MCStream.cfg")]},
    "C13": {"quick": [("zeros", "MCZeros.tla", "MCZeros.cfg"), ("gen_hint", "MCGenerator.tla", "MCGenerator_hint.cfg")],
            "thorough": [("zeros", "MCZeros.tla", "MCZeros.cfg"), ("gen_hint", "MCGenerator.tla", "MCGenerator_hint.cfg")]},
}
GEN_MODE = {"C01": "inputs", "C03": "hist3", "C12": "hist12", "C13": "sizes", "C18": "stream"}
GEN_REQUIRED = {"MCGenerator.tla": ["Byte", "BeginSlice", "SliceByte"], "MCRef.tla": ["Next"]}
GEN_RULE = {
    "C01": "inputs from 6 classes (uniform, low-entropy, periodic, zero-heavy, trigger-word adversarial, one-level piece floods) with lengths on/around block size borders; each hashed in one slice and by hash_buf, all four finalisers compared with L1 by TLC; a piece-count corner grid at every block size index, dense inputs on every small border through the size-declaring routes, and dense-then-sparse input pairs through ONE reused object (reset in between). non-trivial = distinct units in which the real generator performed at least one block hash elimination (bhidx_start > 0 by the guarded probe)",
    "C03": "BOTH DIRECTIONS: call histories TLC generates from GenGenerator.tla replayed on the code; and call histories: one payload delivered by random schedules of update/update_by_iter/update_by_byte/+= forms, clones, finalisation after every call, hash_buf, hash_stream with a chunking reader; trigger-free runs of 2^32+64 bytes through ONE iterator call (and 2^31.. / 2^16.. through the other forms) against the closed-form zero-run state; every observation compared with L1 on the concatenated prefix. non-trivial = distinct histories with at least one elimination",
    "C12": "BOTH DIRECTIONS: call histories TLC generates from GenGenerator.tla (starts around block size borders, chunk descriptors, declarations aimed at the abstract state, resets, clones) replayed on the code; and call histories with set_fixed_input_size(_in_usize) before / in the middle / at the end (right, wrong, too large, repeated) and reset() followed by a second full history. non-trivial = distinct histories with at least one elimination",
    "C18": "hash_stream over scripted readers: payloads of length 0, 1, 7, 300, 32 KiB +-1 (thorough: 64 KiB +-1, 100 KB) delivered by read sizes {1,2,7,32767,32768,all,random}; an error of 5 kinds (with an identity) injected at read index 0, 1, 2, the last data read and the EOF read; premature EOF; reads-after-error counted. hash_file on regular temporary files, a missing path, a directory, /proc/self/status and a FIFO (metadata size 0). non-trivial = scripts with an injected fault (counted in driver_stats); distinct_nontrivial counts payload units with an elimination",
    "C13": "generators positioned after N zero bytes (guarded hook, validated against really feeding zeros) followed by trigger-word suffixes at every block size border 192*2^n +-2, around 96 GiB and 192 GiB, small-input query. non-trivial = distinct scenarios with at least one elimination",
}


def _gen_violation(v, r, events_cache):
    evs = events_cache.setdefault(r["file"], read_events(r["file"]))
    k = r["rejected_at"]
    unit = unit_of(evs, k, None)
    what = "generator trace rejected at event %d of %s: observed %s ; %s" % (k, os.path.basename(r["file"]), json.dumps(evs[k - 1])[:600], (r["mismatch"] or ["no spec step matches this event"])[0][:1200])
    v.violation(what, {"family": "gen", "property": v.pid, "events": unit, "offending_event": evs[k - 1], "spec": r["mismatch"][:1]})


def check_gen(pid, tier):
    v = Verdict(pid, tier)
    binp = build_harness()
    out = fresh_dir("tr_" + pid)
    stats = run_harness(binp, ["gen", GEN_MODE[pid], "--seed", str(seed()), "--tier", tier, "--out", out, "--shards", str(TV_PAR)])
    for job in GEN_MC[pid][tier]:
        name, mod, cfg = job[:3]
        sim = job[3] if len(job) > 3 else None
        v.add_mc(run_mc(name, mod, cfg, simulate=sim, required_actions=None if sim else (GEN_REQUIRED.get(mod) if tier == "thorough" else None)))
    if pid == "C01":
        # anchor of the transcription: the SPECIFICATION against libfuzzy's own vectors shipped with
        # the repository (574 expected hashes over 237 files); a disagreement is a specification
        # error (exit 2), it says nothing about the code
        aout = fresh_dir("tr_C01_anchor")
        ast = run_harness(binp, ["gen", "anchor", "--out", aout, "--shards", str(TV_PAR)])
        ares = run_tv("TraceGen.tla", "TraceGen.cfg", sorted(glob.glob(os.path.join(aout, "*.ndjson"))), timeout=3000)
        if any(not r["accepted"] for r in ares):
            bad = [r for r in ares if not r["accepted"]][0]
            raise ToolError("the specification disagrees with a libfuzzy test vector: %s event %s %s" % (bad["file"], bad["rejected_at"], bad["mismatch"][:1]))
        v.cov["anchor_vectors_spec_vs_libfuzzy"] = ast.get("anchor", {}).get("vectors", 0)
        v.cov["states"] += sum(r["states"] for r in ares)
        v.cov["transitions"] += sum(r["states"] for r in ares)
    files = sorted(glob.glob(os.path.join(out, "*.ndjson")))
    if pid in ("C12", "C03"):
        # the spec -> code direction: call histories chosen by TLC from GenGenerator.tla
        gfiles, gst = gen_generator_behaviours(binp, pid, tier)
        files = gfiles if os.environ.get("VERIF_ONLY_SPEC_GENERATED") else files + gfiles
        v.cov["spec_generated"] = gst
    # thorough: the implementation-shaped model L2 runs in lock-step with L1 on every trace
    lock = tier == "thorough" and pid in ("C01", "C03", "C12", "C13")
    res = run_tv("TraceGen.tla", "TraceGen_lockstep.cfg" if lock else "TraceGen.cfg", files, timeout=6000)
    v.add_tv("TraceGen%s:%s" % ("(lock-step L2)" if lock else "", GEN_MODE[pid]), res)
    cache = {}
    for r in res:
        if not r["accepted"]:
            if any("spec-l2-vs-l1" in m for m in r["mismatch"]):
                raise ToolError("the specification's layers L2 and L1 disagree on a real execution (%s event %s): specification inconsistency, not a verdict about the code" % (r["file"], r["rejected_at"]))
            _gen_violation(v, r, cache)
    st = list(stats.values())[0] if stats else {}
    nev = sum(1 for f in files for _ in open(f))
    v.cov["evaluations"] = nev
    v.cov["distinct_nontrivial"] = st.get("fault_scripts" if pid == "C18" else "units_with_elimination", 0)
    v.cov["driver_stats"] = st
    v.cov["units"] = st.get("units", 0)
    v.cov["units_with_last_hash"] = st.get("units_with_last_hash", 0)
    v.cov["rule"] = GEN_RULE[pid]
    for f in files[:1]:
        evs = read_events(f)
        v.cov["samples"] = [json.dumps(e)[:400] for e in evs[:4]]
    v.assumptions = ["TLC/SANY 1.8.0, CommunityModules Json/IOUtils/Bitwise", "L1 transcribes ssdeep 2.14.1 (cross-checked: L1=L0 and L2 refines L1 by exhaustive TLC at scaled constants)", "the harness only serialises what the API returned"]
    return v.finish()


def replay_gen(pid, path):
    v = Verdict(pid, "quick")
    obj = json.load(open(path))
    binp = build_harness()
    out = fresh_dir("replay_" + pid)
    inp = os.path.join(out, "in.ndjson")
    with open(inp, "w") as f:
        for e in obj["events"]:
            f.write(json.dumps(e) + "\n")
    run_harness(binp, ["replay", "gen", inp, "--out", out])
    res = run_tv("TraceGen.tla", "TraceGen.cfg", [os.path.join(out, "replay_00.ndjson")])
    v.add_tv("replay", res)
    cache = {}
    for r in res:
        if not r["accepted"]:
            _gen_violation(v, r, cache)
    v.cov["evaluations"] = len(obj["events"])
    v.cov["distinct_nontrivial"] = 0
    v.cov["samples"] = [json.dumps(obj["events"][-1])[:400]]
    return 1 if v.violations else 0



# ======================================================================= comparison family
BP_Q = [("bp_w6a2", "MCBitParallel.tla", "MCBitParallel_w6a2.cfg"), ("bp_w5a3", "MCBitParallel.tla", "MCBitParallel_w5a3.cfg")]
BP_T = BP_Q + [("bp_w8a2", "MCBitParallel.tla", "MCBitParallel_w8a2.cfg"), ("bp_w6a3", "MCBitParallel.tla", "MCBitParallel_w6a3.cfg")]
LAWS = [("laws_strings", "MCCompareLaws.tla", "MCCompareLaws_strings.cfg"), ("laws_hashes", "MCCompareLaws.tla", "MCCompareLaws_hashes.cfg")]
CMP = {
    "C02": {"modes": ["pairs", "ss"], "mc": {"quick": LAWS[1:] + BP_Q[:1], "thorough": LAWS + BP_T},
            "rule": "hash pairs (raw texts with runs, short and long, related by edits / rotation / run insertion / crossing, all block size relations, all 31x31 index pairs) through every comparison entry point in both orders; plus the per-block-hash score on all pairs of normalised strings over {0,1} of length 7..8(9) x effective index {0..4,31}. non-trivial = pairs that are comparison candidates (a block hash pair shares a 7-gram, so the edit distance / scaling / capping path is taken)",
            "nontrivial": ("cmp", "candidate_pairs")},
    "C08": {"modes": ["ed"], "mc": {"quick": BP_Q, "thorough": BP_T},
            "rule": "edit distance through BlockHashPositionArray (fresh, reversed operands, re-initialised) and through comparison targets: exhaustively all pairs over {0,1} up to length 6(8) and {0,1,2} up to 4(5), plus random/structured pairs over 64 symbols up to length 64 (runs, alternating patterns, shifted copies, subsequences). non-trivial = all pairs (every pair runs the recurrence); counted = pairs",
            "nontrivial": ("ed", "pairs")},
    "C09": {"modes": ["sub"], "mc": {"quick": BP_Q, "thorough": BP_T},
            "rule": "has_common_substring / is_comparison_candidate with a 7-gram planted at every (offset in a, offset in b) for lengths {7,8,14,15,64} (thorough: {7,8,13,14,15,32,63,64}), near misses of 6, random related pairs, repeated occurrences. non-trivial = planted positives",
            "nontrivial": ("sub", "planted_positive")},
    "C10": {"modes": ["pairs"], "mc": {"quick": LAWS, "thorough": LAWS},
            "rule": "the pair events of C02 (score both orders, candidate both orders, windows / numeric windows / index windows of the left operand); the laws are theorems of the spec on complete small domains (MC) and are re-checked on the recorded values. non-trivial = candidate pairs",
            "nontrivial": ("cmp", "candidate_pairs")},
    "C17": {"modes": ["reuse"], "gen_direction": True, "mc": {"quick": [("target", "MCTarget.tla", "MCTarget.cfg")], "thorough": [("target", "MCTarget.tla", "MCTarget.cfg")]},
            "rule": "BOTH DIRECTIONS: behaviours TLC generates from GenTarget.tla (every new content in a chosen relation to the one it replaces: proper prefix, extension, empty, full length, other block size) replayed on a real target / position array; and histories of init_from / From / clear over pools of hashes of differing lengths and alphabets (empty, shorter, reversed, superset), observed after every step: is_valid, full_eq(fresh), is_equiv / compare / candidate against every pool member, all 64 masks; plus the clustering loop (one target re-initialised thousands of times). non-trivial = re-initialisation steps",
            "nontrivial": ("reuse", "steps")},
    "C20": {"modes": ["tables"], "mc": {"quick": LAWS[:1], "thorough": LAWS[:1]},
            "rule": "complete finite domains dumped from the implementation and judged row by row by TLC: the set {x in u32 : is_valid(x)} (all 2^32 swept), all 256 logarithms, all 31x31 relations, raw score on all (l1,l2,d), score cap on 0..31 x 0..64 x 0..64. non-trivial = table rows",
            "nontrivial": None},
}


def _cmp_violation(v, r, cache):
    evs = cache.setdefault(r["file"], read_events(r["file"]))
    k = r["rejected_at"]
    unit = unit_of(evs, k, None)
    what = "comparison trace rejected at event %d of %s: observed %s ; %s" % (k, os.path.basename(r["file"]), json.dumps(evs[k - 1])[:500], (r["mismatch"] or ["no spec step matches this event"])[0][:600])
    v.violation(what, {"family": "cmp", "property": v.pid, "events": unit[-40:] if evs[k - 1]["ev"] not in ("tobs", "pobs") else unit, "offending_event": evs[k - 1], "spec": r["mismatch"][:1]})


def spec_generated_traces(binp, pid, tier, module, cfg, family, num, prologue, as_event):
    """The spec -> code direction: TLC (-simulate) walks a generator specification and prints each
    behaviour as JSON; the harness replays the calls on real objects and records what it observes;
    the caller validates those traces like any other.  Returns (trace files, statistics)."""
    name = module[:-4].lower()
    r = run_mc(name, module, cfg, simulate="num=%d -depth 48" % num, workers=1, keep_output=True)
    beh = []
    for l in r["output"].splitlines():
        if l.startswith('"REPLAY '):
            beh.append(json.loads(l.strip()[1:-1][len("REPLAY "):].replace('\\"', '"').replace("\\\\", "\\")))
    if len(beh) < num:
        raise ToolError("%s produced %d behaviours, expected %d" % (module, len(beh), num))
    out = fresh_dir("tr_%s_%s" % (pid, name))
    files = []
    ncalls = 0
    kinds = set()
    for i in range(TV_PAR):
        inp = os.path.join(out, "in_%02d.ndjson" % i)
        with open(inp, "w") as f:
            for b in beh[i::TV_PAR]:
                for k, e in enumerate(prologue):
                    f.write(json.dumps(dict(e, unit=1) if k == 0 else e) + "\n")
                for k, e in enumerate(b):
                    e = as_event(e)
                    if k == 0 and not prologue:
                        e = dict(e, unit=1)
                    f.write(json.dumps(e) + "\n")
                    ncalls += 1
                    kinds.add(e.get("op") or e["ev"])
        od = os.path.join(out, "o%02d" % i)
        run_harness(binp, ["replay", family, inp, "--out", od])
        fs = [x for x in sorted(glob.glob(os.path.join(od, "*.ndjson"))) if os.path.getsize(x) > 0]
        if not fs:
            raise ToolError("the replay of spec-generated behaviours produced no events")
        files += fs
    return files, {"generator": module, "behaviours": len(beh), "calls": ncalls, "distinct_call_kinds": len(kinds), "states_generated_by_tlc": r.get("generated", 0)}


def gen_obj_behaviours(binp, pid, tier):
    """C11 / C15: the object slot machine (GenObj.tla)"""
    import re, subprocess
    # the operation table of the generator specification must be the harness's
    p = subprocess.run([binp, "obj", "optable"], stdout=subprocess.PIPE, stderr=subprocess.PIPE, text=True)
    if p.returncode != 0:
        raise ToolError("harness obj optable failed")
    impl_ops = [tuple(x) for x in json.loads(p.stdout)]
    text = open(os.path.join(SPEC, "GenObj.tla")).read()
    body = text[text.index("Ops == <<"):text.index("(* ---- the pool")]
    spec_ops = [tuple(m) for m in re.findall(r'<<"([a-z_]+)", "([A-Z]{2})", "([A-Z]{2})">>', body)]
    if impl_ops != spec_ops:
        raise ToolError("GenObj.tla Ops differs from the harness's OPS table (%d vs %d entries)" % (len(spec_ops), len(impl_ops)))
    return spec_generated_traces(binp, pid, tier, "GenObj.tla", "GenObj.cfg", "obj", 300 if tier == "quick" else 6000,
                                 [{"ev": "hnew"}], lambda e: dict(e, ev="op"))


def gen_generator_behaviours(binp, pid, tier):
    """C12 / C03: the generator's call protocol (GenGenerator.tla).  Chunk descriptors are
    materialised here with trigger words from the corpus: input shaping only, what the bytes do is
    recomputed by the specification when the recorded trace is validated."""
    import random
    words = json.load(open(os.path.join(VERIF, "corpus", "trigger_words.json")))
    rnd = random.Random(seed())

    def materialise(e):
        if e.get("ev") != "upd":
            return e
        kind, lv, cnt = e["chunk"]
        if kind == "zeros":
            d = [0] * cnt
        else:
            pool = words["levels"][lv] if kind == "word" else words[kind]
            d = [b for _ in range(cnt) for b in rnd.choice(pool)]
        return {"ev": "upd", "g": e["g"], "f": e["f"], "d": d}
    return spec_generated_traces(binp, pid, tier, "GenGenerator.tla", "GenGenerator.cfg", "gen", 250 if tier == "quick" else 5000, [], materialise)


def gen_target_behaviours(binp, pid, tier):
    """C17: the reusable target and position array (GenTarget.tla)"""
    return spec_generated_traces(binp, pid, tier, "GenTarget.tla", "GenTarget.cfg", "cmp", 200 if tier == "quick" else 4000,
                                 [{"ev": "tnew"}, {"ev": "pnew"}], lambda e: e)


def check_cmp(pid, tier):
    v = Verdict(pid, tier)
    cfgp = CMP[pid]
    binp = build_harness()
    files = []
    stats = {}
    for mode in cfgp["modes"]:
        out = fresh_dir("tr_%s_%s" % (pid, mode))
        stats.update(run_harness(binp, ["cmp", mode, "--seed", str(seed()), "--tier", tier, "--out", out, "--shards", str(TV_PAR)]))
        files += sorted(glob.glob(os.path.join(out, "*.ndjson")))
    for name, mod, cfg in cfgp["mc"][tier]:
        v.add_mc(run_mc(name, mod, cfg))
    gen_stats = None
    if cfgp.get("gen_direction"):
        gfiles, gen_stats = gen_target_behaviours(binp, pid, tier)
        files = gfiles if os.environ.get("VERIF_ONLY_SPEC_GENERATED") else files + gfiles   # (the env switch is for demonstrations)
        v.cov["spec_generated"] = gen_stats
    res = run_tv("TraceCmp.tla", "TraceCmp.cfg", files, timeout=3000)
    v.add_tv("TraceCmp:" + "+".join(cfgp["modes"]) + ("+spec-generated" if gen_stats else ""), res)
    cache = {}
    for r in res:
        if not r["accepted"]:
            _cmp_violation(v, r, cache)
    nev = sum(1 for f in files for _ in open(f))
    v.cov["evaluations"] = nev
    nt = cfgp["nontrivial"]
    v.cov["distinct_nontrivial"] = stats.get(nt[0], {}).get(nt[1], 0) if nt else nev
    v.cov["driver_stats"] = stats
    v.cov["rule"] = cfgp["rule"]
    v.cov["exhaustive"] = pid == "C20"
    evs = read_events(files[0])
    v.cov["samples"] = [json.dumps(e)[:500] for e in evs[:3]]
    v.assumptions = ["TLC/SANY 1.8.0, CommunityModules", "Compare.tla transcribes ssdeep 2.14.1 fuzzy_compare / score_strings / edit_distn (insert/delete only)", "the harness only serialises what the API returned (radix changes for 64-bit values)"]
    return v.finish()


def replay_cmp(pid, path):
    v = Verdict(pid, "quick")
    obj = json.load(open(path))
    binp = build_harness()
    out = fresh_dir("replay_" + pid)
    inp = os.path.join(out, "in.ndjson")
    with open(inp, "w") as f:
        for e in obj["events"]:
            f.write(json.dumps(e) + "\n")
    run_harness(binp, ["replay", "cmp", inp, "--out", out])
    files = sorted(glob.glob(os.path.join(out, "**", "*.ndjson"), recursive=True))
    files = [x for x in files if not x.endswith("in.ndjson") and os.path.getsize(x) > 0]
    if not files:
        raise ToolError("the replay produced no events")
    res = run_tv("TraceCmp.tla", "TraceCmp.cfg", files)
    cache = {}
    for r in res:
        if not r["accepted"]:
            _cmp_violation(v, r, cache)
    return 1 if v.violations else 0



# ======================================================================= text / object family
OBJ = {
    "C04": {"modes": ["parse"], "mc": {"quick": [("text", "MCText.tla", "MCText.cfg"), ("parser", "MCParser.tla", "MCParser_quick.cfg")],
                                       "thorough": [("text", "MCText.tla", "MCText.cfg"), ("parser", "MCParser.tla", "MCParser_thorough.cfg")]},
            "rule": "texts parsed with all six hash types by from_bytes_with_last_index (index preset to a sentinel), from_bytes and str::parse: all texts up to length 4(5) over {3,6,1,0,9,:,',',A,/,!,0x80}; structured texts (every block size spelling class x block hashes of up to 3 runs with lengths from {0,1,3,4,7,29..36,61..68,100,200} x terminators); the capacity-border run family; byte-level mutations of accepted texts and generator output. non-trivial = texts beyond the exhaustive tiny-alphabet part",
            "nontrivial": ("parse", "structured")},
    "C05": {"modes": ["fmt", "parse"], "mc": {"quick": [("text", "MCText.tla", "MCText.cfg")], "thorough": [("text", "MCText.tla", "MCText.cfg")]},
            "rule": "objects of the four plain types for all 31 block sizes x lengths {0,1,31,32,33,63,64}^2 plus random: to_string / Display / String::from / len_in_str / MAX_LEN_IN_STR / store_into_bytes into sentinel-filled buffers (every length 0..max+8 for a sample, borders for the rest) / parse back; plus text -> object -> text on every accepted text of the C04 corpus. non-trivial = objects formatted",
            "nontrivial": ("fmt", "objects")},
    "C06": {"modes": ["norm"], "mc": {"quick": [("dual_c8a2", "MCDual.tla", "MCDual_c8a2.cfg")], "thorough": [("dual_c8a2", "MCDual.tla", "MCDual_c8a2.cfg"), ("dual_c12a2", "MCDual.tla", "MCDual_c12a2.cfg")]},
            "rule": "raw hashes with one run of every length at every start (64 and 32 symbol block hashes), adjacent runs, runs touching both ends, three runs, geometric random runs; 16 routes to the normalised hash each (normalize, in place incl. after a longer value, clone_normalized, From/Into, from_raw_form, parsing into normalising and dual types, dual as_normalized/to_normalized, twice). non-trivial = raw hashes",
            "nontrivial": ("norm", "hashes")},
    "C07": {"modes": ["dual"], "mc": {"quick": [("dual_c8a2", "MCDual.tla", "MCDual_c8a2.cfg")], "thorough": [("dual_c8a2", "MCDual.tla", "MCDual_c8a2.cfg"), ("dual_c8a3", "MCDual.tla", "MCDual_c8a3.cfg"), ("dual_c12a2", "MCDual.tla", "MCDual_c12a2.cfg")]},
            "rule": "raw hashes of both capacities (run layouts of C06, runs needing exactly N/4 RLE symbols, runs ending at the capacity, random) turned into dual hashes by 7 routes (from_raw_form, From, init_from_raw_form into a dirty object, new_from_internals, new_from_internals_near_raw, str::parse, from_bytes); every route: validity, raw form (fresh and into a dirty destination), normalised part, texts, pairwise ==/cmp/Hash; normalize_in_place. non-trivial = raw hashes",
            "nontrivial": ("dual", "hashes")},
    "C11": {"modes": ["hist", "ctor"], "gen_direction": True, "mc": {"quick": [("objects", "MCObjects.tla", "MCObjects.cfg"), ("dual_c8a2", "MCDual.tla", "MCDual_c8a2.cfg")],
                                              "thorough": [("objects", "MCObjects.tla", "MCObjects.cfg"), ("dual_c8a2", "MCDual.tla", "MCDual_c8a2.cfg")]},
            "rule": "BOTH DIRECTIONS: behaviours generated by TLC from GenObj.tla (the slot machine walked by -simulate, values from a pool on the representation borders) replayed on real objects, and histories over 12 typed object slots (two per type): every operation of the conversion graph from a fresh value into a destination that holds the longest possible content, followed by every operation that reads the written slot; random histories of 50..200 steps (set from internals, parse, generator output, 60 operations incl. into_mut_*, init_from_raw_form, try_into_mut_short, in-place normalisation); after every step is_valid / full_eq against a rebuilt object / {:?} / text of the written slot. Constructor calls (4 plain + 2 dual constructors x 6 types) with one contract clause violated at a time. non-trivial = history steps + constructor calls aimed at a clause",
            "nontrivial": ("hist", "steps")},
    "C15": {"modes": ["hist"], "gen_direction": True, "mc": {"quick": [("objects", "MCObjects.tla", "MCObjects.cfg")], "thorough": [("objects", "MCObjects.tla", "MCObjects.cfg"), ("dual_c8a2", "MCDual.tla", "MCDual_c8a2.cfg")]},
            "rule": "the conversion steps of the object histories (see C11): after any chain the destination holds the value the DIRECT conversion gives (run-collapsed iff the target type or the operation normalises), widening/narrowing round trips, narrowing fails iff block hash 2 is longer than 32 and then leaves the destination as it was, text differs at most by run collapsing. non-trivial = history steps",
            "nontrivial": ("hist", "steps")},
    "C16": {"modes": ["ord"], "mc": {"quick": [("order", "MCOrder.tla", "MCOrder.cfg")], "thorough": [("order", "MCOrder.tla", "MCOrder.cfg")]},
            "rule": "ordered pairs of the complete domain {k in 0,1,30} x bh1 over {A,B,/} up to length 2(3) x bh2 up to 2 (a third of the pairs in quick, all in thorough) per type in rotation, sort() of the whole domain, random full-length pairs differing by trailing 'A's, dual families sharing a normalised part (full cmp / eq / hash matrices). non-trivial = pair / family events",
            "nontrivial": ("ord", "events")},
}


def _obj_violation(v, r, cache):
    evs = cache.setdefault(r["file"], read_events(r["file"]))
    k = r["rejected_at"]
    what = "object trace rejected at event %d of %s: observed %s ; %s" % (k, os.path.basename(r["file"]), json.dumps(evs[k - 1])[:500], (r["mismatch"] or ["no spec step matches this event"])[0][:600])
    unit = unit_of(evs, k, None) if evs[k - 1]["ev"] in ("op", "ctor") else [evs[k - 1]]
    v.violation(what, {"family": "obj", "property": v.pid, "events": unit, "offending_event": evs[k - 1], "spec": r["mismatch"][:1]})


def check_family(pid, tier, table, fam, module, cfg, violation):
    v = Verdict(pid, tier)
    cfgp = table[pid]
    binp = build_harness()
    files = []
    stats = {}
    for mode in cfgp["modes"]:
        out = fresh_dir("tr_%s_%s" % (pid, mode))
        stats.update(run_harness(binp, [fam, mode, "--seed", str(seed()), "--tier", tier, "--out", out, "--shards", str(TV_PAR)]))
        files += sorted(glob.glob(os.path.join(out, "*.ndjson")))
    if cfgp.get("debug_too"):
        # the same drivers (quick budget) in a build WITH debug assertions and overflow checks: a
        # primitive that panics there on an input of its domain does not "equal its definition"
        bind = build_harness(profile="debug")
        for mode in cfgp["modes"]:
            out = fresh_dir("tr_%s_%s_debug" % (pid, mode))
            run_harness(bind, [fam, mode, "--seed", str(seed()), "--tier", "quick", "--out", out, "--shards", str(TV_PAR)])
            files += sorted(glob.glob(os.path.join(out, "*.ndjson")))
    for name, mod, c in cfgp["mc"][tier]:
        v.add_mc(run_mc(name, mod, c))
    gen_stats = None
    if cfgp.get("gen_direction"):
        gfiles, gen_stats = gen_obj_behaviours(binp, pid, tier)
        files = gfiles if os.environ.get("VERIF_ONLY_SPEC_GENERATED") else files + gfiles   # (the env switch is for demonstrations)
    res = run_tv(module, cfg, files, timeout=3000)
    v.add_tv(module + ":" + "+".join(cfgp["modes"]) + ("+spec-generated" if gen_stats else ""), res)
    if gen_stats:
        v.cov["spec_generated"] = gen_stats
    cache = {}
    for r in res:
        if not r["accepted"]:
            violation(v, r, cache)
    nev = sum(1 for f in files for _ in open(f))
    v.cov["evaluations"] = nev
    nt = cfgp["nontrivial"]
    v.cov["distinct_nontrivial"] = stats.get(nt[0], {}).get(nt[1], 0) if nt else nev
    v.cov["driver_stats"] = stats
    v.cov["rule"] = cfgp["rule"]
    evs = read_events(files[0])
    v.cov["samples"] = [json.dumps(e)[:500] for e in evs[:3]]
    v.assumptions = ["TLC/SANY 1.8.0, CommunityModules", "Text.tla / BlockHash.tla / Order.tla / Dual.tla transcribe the property statements (grammar, run collapsing, documented order, RLE canonical form)", "the harness only serialises what the API returned"]
    return v.finish()


def check_obj(pid, tier):
    return check_family(pid, tier, OBJ, "obj", "TraceObj.tla", "TraceObj.cfg", _obj_violation)


def replay_obj(pid, path):
    v = Verdict(pid, "quick")
    obj = json.load(open(path))
    binp = build_harness()
    out = fresh_dir("replay_" + pid)
    inp = os.path.join(out, "in.ndjson")
    with open(inp, "w") as f:
        for e in obj["events"]:
            f.write(json.dumps(e) + "\n")
    run_harness(binp, ["replay", "obj", inp, "--out", out])
    files = [x for x in sorted(glob.glob(os.path.join(out, "*.ndjson"))) if not x.endswith("in.ndjson") and os.path.getsize(x) > 0]
    if not files:
        raise ToolError("the replay produced no events")
    res = run_tv("TraceObj.tla", "TraceObj.cfg", files)
    cache = {}
    for r in res:
        if not r["accepted"]:
            _obj_violation(v, r, cache)
    return 1 if v.violations else 0



# ======================================================================= C14: build configurations
C14_CONFIGS = [
    # name, features, no-default-features
    ("default", [], False),
    ("unsafe", ["unsafe"], False),
    ("unchecked", ["unchecked"], False),
    ("fnv", ["opt-reduce-fnv-table"], False),
    ("unsafe_fnv", ["unsafe", "opt-reduce-fnv-table"], False),
    ("strict", ["strict-parser"], False),
    ("nodefault", [], True),
]
# thorough only: the remaining ways the default features can be taken apart, and two combinations
C14_EXTRA = [
    ("nd_alloc", ["alloc"], True),
    ("nd_easy", ["easy-functions"], True),
    ("nd_std", ["std"], True),
    ("unsafe_strict", ["unsafe", "strict-parser"], False),
    ("unchecked_fnv", ["unchecked", "opt-reduce-fnv-table"], False),
]
C14_SPEC = {"c14gen": ("TraceGen.tla", "TraceGen.cfg"), "c14cmp": ("TraceCmp.tla", "TraceCmp.cfg"),
            "c14obj": ("TraceObj.tla", "TraceObj.cfg"), "c14hash": ("TraceHash.tla", "TraceHash.cfg")}


def _build_config(name, feats, nodefault, profile):
    tdir = os.path.join(BUILD, "target_c14")
    cmd = ["cargo", "build", "--offline", "--target-dir", tdir]
    if profile == "release":
        cmd.append("--release")
    if nodefault:
        cmd.append("--no-default-features")
    if feats:
        cmd += ["--features", ",".join(feats)]
    t0 = time.time()
    p = subprocess.run(cmd, cwd=HARNESS, env=dict(os.environ, CARGO_NET_OFFLINE="true"), stdout=subprocess.PIPE, stderr=subprocess.STDOUT, text=True)
    if p.returncode != 0:
        log(p.stdout[-5000:])
        raise ToolError("harness build failed for configuration %s/%s" % (name, profile))
    os.makedirs(os.path.join(BUILD, "bin"), exist_ok=True)
    dst = os.path.join(BUILD, "bin", "verif-harness-%s-%s" % (name, profile))
    shutil.copy2(os.path.join(tdir, "release" if profile == "release" else "debug", "verif-harness"), dst)
    log("[build] %s/%s in %.1fs" % (name, profile, time.time() - t0))
    return dst


def _canon(ev, strict_cfg):
    """an event with everything configuration-specific removed (for cross-configuration comparison)"""
    if ev.get("ev") in ("hashbuf", "hashstream"):
        return None
    if strict_cfg and (ev.get("ev") in ("parse", "op", "hnew")):
        return None          # parse results legitimately differ under the strict parser; histories diverge after a parse

    if strict_cfg and ev.get("ev") == "norm":
        # the strict parser refuses the two short text routes when the raw block hash 2 exceeds 32 (see EvNorm)
        ev = dict(ev, routes={k: v for k, v in ev.get("routes", {}).items() if k not in ("short_parse", "short_from_bytes")})

    def strip(x):
        if isinstance(x, dict):
            return {k: strip(v) for k, v in x.items() if not (k in ("str", "unchecked", "uobs", "unit") or k.startswith("u_"))}
        if isinstance(x, list):
            return [strip(v) for v in x]
        return x
    return strip(ev)


SOAK = [("gen", "inputs", "TraceGen.tla", "TraceGen.cfg"), ("gen", "hist12", "TraceGen.tla", "TraceGen.cfg"), ("gen", "stream", "TraceGen.tla", "TraceGen.cfg"),
        ("cmp", "pairs", "TraceCmp.tla", "TraceCmp.cfg"), ("cmp", "ed", "TraceCmp.tla", "TraceCmp.cfg"), ("cmp", "sub", "TraceCmp.tla", "TraceCmp.cfg"),
        ("cmp", "ss", "TraceCmp.tla", "TraceCmp.cfg"), ("cmp", "reuse", "TraceCmp.tla", "TraceCmp.cfg"), ("cmp", "tables", "TraceCmp.tla", "TraceCmp.cfg"),
        ("obj", "parse", "TraceObj.tla", "TraceObj.cfg"), ("obj", "fmt", "TraceObj.tla", "TraceObj.cfg"), ("obj", "norm", "TraceObj.tla", "TraceObj.cfg"),
        ("obj", "dual", "TraceObj.tla", "TraceObj.cfg"), ("obj", "ord", "TraceObj.tla", "TraceObj.cfg"), ("obj", "hist", "TraceObj.tla", "TraceObj.cfg"),
        ("obj", "ctor", "TraceObj.tla", "TraceObj.cfg"), ("hashes", "all", "TraceHash.tla", "TraceHash.cfg")]


def _debug_soak(v, pid, tier):
    import re
    binp = os.path.join(BUILD, "bin", "verif-harness-default-debug")      # built a moment ago by check_c14
    if not os.path.exists(binp):
        binp = _build_config("default", [], False, "debug")
    marker = re.compile(r'panic')
    total_events = 0
    total_units = 0
    picked_units = 0
    by_spec = {}
    for fam, mode, mod, cfg in SOAK:
        out = fresh_dir("tr_C14_soak_%s_%s" % (fam, mode))
        run_harness(binp, [fam, mode, "--seed", str(seed()), "--tier", "quick", "--out", out, "--shards", "4"], timeout=3000)
        sel = os.path.join(out, "selected.ndjson.sel")
        with open(sel, "w") as w:
            for fpath in sorted(glob.glob(os.path.join(out, "*.ndjson"))):
                unit, hit = [], False
                def flush():
                    nonlocal picked_units
                    if unit and hit:
                        picked_units += 1
                        w.writelines(unit)
                for line in open(fpath):
                    total_events += 1
                    if '"unit":1' in line[:12] or '"unit": 1' in line[:14]:
                        flush()
                        unit, hit = [], False
                        total_units += 1
                    unit.append(line)
                    if marker.search(line.replace('"panics":0', "")):
                        hit = True
                flush()
        if os.path.getsize(sel) > 0:
            dst = os.path.join(out, "selected_%s_%s.ndjson" % (fam, mode))
            os.rename(sel, dst)
            by_spec.setdefault((mod, cfg), []).append(dst)
    nrej = 0
    for (mod, cfg), files in by_spec.items():
        res = run_tv(mod, cfg, files, timeout=3000)
        v.add_tv("C14-debug-soak:" + mod, res)
        cache = {}
        for r in res:
            if not r["accepted"]:
                nrej += 1
                evs = cache.setdefault(r["file"], read_events(r["file"]))
                k = r["rejected_at"]
                v.violation("default features WITH debug assertions: trace rejected at event %d of %s: %s ; %s" % (k, os.path.basename(r["file"]), json.dumps(evs[k - 1])[:400], (r["mismatch"] or [""])[0][:500]),
                            {"family": "c14", "property": pid, "config": "default/debug soak", "events": [evs[k - 1]], "spec": r["mismatch"][:1]})
    return {"events_executed_with_debug_assertions": total_events, "units": total_units, "units_with_a_panic_validated_by_tlc": picked_units, "rejected": nrej}


def check_c14(pid, tier):
    v = Verdict(pid, tier)
    profiles = [("release", C14_CONFIGS + (C14_EXTRA if tier == "thorough" else [])), ("debug", C14_CONFIGS if tier == "thorough" else C14_CONFIGS[:1])]
    runs = []
    for prof, cfgs in profiles:
        for name, feats, nd in cfgs:
            binp = _build_config(name, feats, nd, prof)
            out = fresh_dir("tr_C14_%s_%s" % (name, prof))
            run_harness(binp, ["c14", "--seed", str(seed()), "--tier", tier, "--out", out, "--shards", "3"])
            runs.append((name, prof, out))
    for name, mod, cfg in [("parser_strict_lemmas", "MCParser.tla", "MCParser_quick.cfg"), ("hashes_scaled", "MCHashes.tla", "MCHashes_scaled.cfg")]:
        v.add_mc(run_mc(name, mod, cfg))
    # (1) every configuration conforms to the one specification (strict parser: STRICT = TRUE)
    cache = {}
    nfiles = 0
    for prefix, (mod, cfg) in C14_SPEC.items():
        normal, strict = [], []
        for name, prof, out in runs:
            fs = sorted(glob.glob(os.path.join(out, prefix + "_*.ndjson")))
            (strict if ("strict" in name.split("_") and prefix == "c14obj") else normal).extend(fs)
        for files, c in ((normal, cfg), (strict, "TraceObj_strict.cfg")):
            if not files:
                continue
            res = run_tv(mod, c, files, timeout=3000)
            nfiles += len(files)
            v.add_tv("%s/%s" % (mod, c), res)
            for r in res:
                if not r["accepted"]:
                    evs = cache.setdefault(r["file"], read_events(r["file"]))
                    k = r["rejected_at"]
                    conf = os.path.basename(os.path.dirname(r["file"]))
                    v.violation("configuration %s: trace rejected at event %d of %s: %s ; %s" % (conf, k, os.path.basename(r["file"]), json.dumps(evs[k - 1])[:400], (r["mismatch"] or [""])[0][:500]),
                                {"family": "c14", "property": pid, "config": conf, "events": [evs[k - 1]], "spec": r["mismatch"][:1]})
    # (1b) "with or without debug assertions ... over the shared input corpus of the other properties":
    # the default feature set built WITH debug assertions and overflow checks runs the quick drivers
    # of the other families; every unit (independent history) in which the library panicked anywhere
    # is validated by TLC like any other trace (constructor contract panics are expected and
    # accepted; anything else is rejected).  Units without a panic differ from the release run of
    # the other checks only by the build, and the slices above already compare those event by event.
    soak = _debug_soak(v, pid, tier)
    # (2) the transcripts are the same in every configuration (up to configuration-specific entries)
    base = runs[0][2]
    ndiff = 0
    for name, prof, out in runs[1:]:
        for bf in sorted(glob.glob(os.path.join(base, "*.ndjson"))):
            of = os.path.join(out, os.path.basename(bf))
            sc = "strict" in name.split("_")
            a = [x for x in (_canon(e, sc) for e in read_events(bf)) if x is not None]
            b = [x for x in (_canon(e, sc) for e in read_events(of)) if x is not None]
            if a != b:
                idx = next((i for i in range(min(len(a), len(b))) if a[i] != b[i]), min(len(a), len(b)))
                ea = a[idx] if idx < len(a) else None
                eb = b[idx] if idx < len(b) else None
                keys = [k for k in (ea or {}) if (eb or {}).get(k) != ea.get(k)] if ea and eb else []
                ndiff += 1
                v.violation("configuration %s/%s differs from default/release in %s at comparable event %d (fields %s)" % (name, prof, os.path.basename(bf), idx, keys),
                            {"family": "c14", "property": pid, "config": "%s/%s" % (name, prof), "default": ea, "other": eb, "events": []})
                break
    nev = sum(1 for _, _, out in runs for fpath in glob.glob(os.path.join(out, "*.ndjson")) for _ in open(fpath))
    v.cov["evaluations"] = nev
    v.cov["distinct_nontrivial"] = len(runs)
    v.cov["configurations"] = ["%s/%s" % (n, p) for n, p, _ in runs]
    v.cov["transcript_differences"] = ndiff
    v.cov["debug_soak"] = soak
    v.cov["rule"] = "one seeded scenario slice of every family (generator corner grid + histories, comparison pairs, parse/normalise/dual/format/order/histories/constructors incl. the *_unchecked entry points where the checked ones accepted the arguments, hash primitives) run by one harness binary per build configuration; every trace validated against the same specification (STRICT = TRUE for strict-parser) and compared event by event with default/release. non-trivial = configurations"
    evs = read_events(sorted(glob.glob(os.path.join(base, "*.ndjson")))[0])
    v.cov["samples"] = [json.dumps(e)[:400] for e in evs[:2]]
    v.assumptions = ["silent undefined behaviour without observable effect is out of scope (Miri / sanitizers are a different technique)", "TLC/SANY 1.8.0"]
    return v.finish()


def replay_c14(pid, path):
    return check_c14(pid, "quick")


HASH_TBL = {
    "C19": {"modes": ["all"], "debug_too": True, "mc": {"quick": [("hashes_scaled", "MCHashes.tla", "MCHashes_scaled.cfg"), ("hashes_real", "MCHashes.tla", "MCHashes_real.cfg")],
                                     "thorough": [("hashes_scaled", "MCHashes.tla", "MCHashes_scaled.cfg"), ("hashes_real", "MCHashes.tla", "MCHashes_real.cfg")]},
            "rule": "byte strings of the C01 classes (<= 4 KiB): RollingHash::value() and PartialFNVHash::value() after EVERY prefix against RollDef(last 7 bytes) and the low six bits of a 32-bit FNV-1 state carried by the spec; slice / iterator / single-byte / += / mixed forms on random splits; the complete 64 x 256 FNV transition table (all 64 states reached through the public API). non-trivial = bytes stepped",
            "nontrivial": ("hashes", "bytes")},
}


def _hash_violation(v, r, cache):
    evs = cache.setdefault(r["file"], read_events(r["file"]))
    k = r["rejected_at"]
    what = "hash primitive trace rejected at event %d of %s: %s" % (k, os.path.basename(r["file"]), (r["mismatch"] or ["no spec step matches this event"])[0][:600])
    v.violation(what, {"family": "hashes", "property": v.pid, "events": [evs[k - 1]], "offending_event": evs[k - 1], "spec": r["mismatch"][:1]})


def check_hashes(pid, tier):
    return check_family(pid, tier, HASH_TBL, "hashes", "TraceHash.tla", "TraceHash.cfg", _hash_violation)


def replay_hashes(pid, path):
    # the drivers are deterministic in VERIF_SEED; a replay re-runs the recorded byte string
    v = Verdict(pid, "quick")
    obj = json.load(open(path))
    binp = build_harness()
    out = fresh_dir("replay_" + pid)
    inp = os.path.join(out, "in.ndjson")
    with open(inp, "w") as fh:
        for e in obj["events"]:
            fh.write(json.dumps(e) + "\n")
    run_harness(binp, ["replay", "hashes", inp, "--out", out])
    run_harness(build_harness(profile="debug"), ["replay", "hashes", inp, "--out", os.path.join(out, "debug")])
    files = [x for x in sorted(glob.glob(os.path.join(out, "**", "*.ndjson"), recursive=True)) if not x.endswith("in.ndjson")]
    res = run_tv("TraceHash.tla", "TraceHash.cfg", files)
    cache = {}
    for r in res:
        if not r["accepted"]:
            _hash_violation(v, r, cache)
    return 1 if v.violations else 0


CHECKS = {"C14": check_c14, "C01": check_gen, "C03": check_gen, "C12": check_gen, "C13": check_gen, "C18": check_gen, "C19": check_hashes}
REPLAY = {"C14": replay_c14, "C01": replay_gen, "C03": replay_gen, "C12": replay_gen, "C13": replay_gen, "C18": replay_gen, "C19": replay_hashes}
for _p in CMP:
    CHECKS[_p] = check_cmp
    REPLAY[_p] = replay_cmp
for _p in OBJ:
    CHECKS[_p] = check_obj
    REPLAY[_p] = replay_obj


def replay(pid, path):
    try:
        if json.load(open(path)).get("family") == "uncaught-panic":
            return CHECKS[pid](pid, "quick")       # the scenario is the driver run itself
    except (OSError, ValueError):
        pass
    return REPLAY[pid](pid, path)


def setup():
    build_harness()
    for m in sorted(glob.glob(os.path.join(SPEC, "*.tla"))):
        p = subprocess.run(["tla-sany", m], cwd=SPEC, stdout=subprocess.PIPE, stderr=subprocess.STDOUT, text=True)
        if p.returncode != 0 or "Semantic errors" in p.stdout or "Fatal errors" in p.stdout or "Could not parse" in p.stdout:
            log(p.stdout[-3000:])
            raise ToolError("SANY rejects " + m)
    log("setup ok")
    return 0


def selftest(tier):
    import selftest as st
    return st.main(tier)
