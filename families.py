"""Per-property decision procedures (DESIGN.md section 5)."""
import glob, json, os, shutil, subprocess, sys, time
from vlib import *


# ======================================================================= generator family
GEN_MC = {
    "C01": {"quick": [("ref_n2", "MCRef.tla", "MCRef_n2.cfg"), ("gen_quick", "MCGenerator.tla", "MCGenerator_quick.cfg")],
            "thorough": [("ref_n2", "MCRef.tla", "MCRef_n2.cfg"), ("ref_n3", "MCRef.tla", "MCRef_n3.cfg"), ("ref_n3_l6", "MCRef.tla", "MCRef_n3_l6.cfg"),
                         ("gen_k3", "MCGenerator.tla", "MCGenerator_k3.cfg")]},
    "C03": {"quick": [("gen_quick", "MCGenerator.tla", "MCGenerator_quick.cfg")],
            "thorough": [("gen_k3", "MCGenerator.tla", "MCGenerator_k3.cfg")]},
    "C12": {"quick": [("gen_reset", "MCGenerator.tla", "MCGenerator_reset.cfg"), ("gen_hint", "MCGenerator.tla", "MCGenerator_hint.cfg")],
            "thorough": [("gen_reset", "MCGenerator.tla", "MCGenerator_reset.cfg"), ("gen_hint", "MCGenerator.tla", "MCGenerator_hint.cfg")]},
    "C13": {"quick": [("zeros", "MCZeros.tla", "MCZeros.cfg"), ("gen_hint", "MCGenerator.tla", "MCGenerator_hint.cfg")],
            "thorough": [("zeros", "MCZeros.tla", "MCZeros.cfg"), ("gen_hint", "MCGenerator.tla", "MCGenerator_hint.cfg")]},
}
GEN_MODE = {"C01": "inputs", "C03": "hist3", "C12": "hist12", "C13": "sizes"}
GEN_REQUIRED = {"MCGenerator.tla": ["Byte", "BeginSlice", "SliceByte"], "MCRef.tla": ["Next"]}
GEN_RULE = {
    "C01": "inputs from 6 classes (uniform, low-entropy, periodic, zero-heavy, trigger-word adversarial, one-level piece floods) with lengths on/around block size borders; each hashed in one slice and by hash_buf, all four finalisers compared with L1 by TLC. non-trivial = distinct units in which the real generator performed at least one block hash elimination (bhidx_start > 0 by the guarded probe)",
    "C03": "call histories: one payload delivered by random schedules of update/update_by_iter/update_by_byte/+= forms, clones, finalisation after every call, hash_buf, hash_stream with a chunking reader; every observation compared with L1 on the concatenated prefix. non-trivial = distinct histories with at least one elimination",
    "C12": "call histories with set_fixed_input_size(_in_usize) before / in the middle / at the end (right, wrong, too large, repeated) and reset() followed by a second full history. non-trivial = distinct histories with at least one elimination",
    "C13": "generators positioned after N zero bytes (guarded hook, validated against really feeding zeros) followed by trigger-word suffixes at every block size border 192*2^n +-2, around 96 GiB and 192 GiB, small-input query. non-trivial = distinct scenarios with at least one elimination",
}


def _gen_violation(v, r, events_cache):
    evs = events_cache.setdefault(r["file"], read_events(r["file"]))
    k = r["rejected_at"]
    unit = unit_of(evs, k, None)
    what = "generator trace rejected at event %d of %s: observed %s ; %s" % (k, os.path.basename(r["file"]), json.dumps(evs[k - 1])[:600], (r["mismatch"] or ["no spec step matches this event"])[0][:1200])
    v.violation(what, {"family": "gen", "property": v.pid, "events": unit, "offending_event": evs[k - 1], "spec": r["mismatch"][:1]})


def check_gen(pid, tier):
    v = Verdict(pid, tier)
    binp = build_harness()
    out = fresh_dir("tr_" + pid)
    stats = run_harness(binp, ["gen", GEN_MODE[pid], "--seed", str(seed()), "--tier", tier, "--out", out, "--shards", str(TV_PAR)])
    for name, mod, cfg in GEN_MC[pid][tier]:
        v.add_mc(run_mc(name, mod, cfg, required_actions=GEN_REQUIRED.get(mod) if tier == "thorough" else None))
    files = sorted(glob.glob(os.path.join(out, "*.ndjson")))
    res = run_tv("TraceGen.tla", "TraceGen.cfg", files, timeout=3000)
    v.add_tv("TraceGen:" + GEN_MODE[pid], res)
    cache = {}
    for r in res:
        if not r["accepted"]:
            _gen_violation(v, r, cache)
    st = list(stats.values())[0] if stats else {}
    nev = sum(1 for f in files for _ in open(f))
    v.cov["evaluations"] = nev
    v.cov["distinct_nontrivial"] = st.get("units_with_elimination", 0)
    v.cov["units"] = st.get("units", 0)
    v.cov["units_with_last_hash"] = st.get("units_with_last_hash", 0)
    v.cov["rule"] = GEN_RULE[pid]
    for f in files[:1]:
        evs = read_events(f)
        v.cov["samples"] = [json.dumps(e)[:400] for e in evs[:4]]
    v.assumptions = ["TLC/SANY 1.8.0, CommunityModules Json/IOUtils/Bitwise", "L1 transcribes ssdeep 2.14.1 (cross-checked: L1=L0 and L2 refines L1 by exhaustive TLC at scaled constants)", "the harness only serialises what the API returned"]
    return v.finish()


def replay_gen(pid, path):
    v = Verdict(pid, "quick")
    obj = json.load(open(path))
    binp = build_harness()
    out = fresh_dir("replay_" + pid)
    inp = os.path.join(out, "in.ndjson")
    with open(inp, "w") as f:
        for e in obj["events"]:
            f.write(json.dumps(e) + "\n")
    run_harness(binp, ["replay", "gen", inp, "--out", out])
    res = run_tv("TraceGen.tla", "TraceGen.cfg", [os.path.join(out, "replay_00.ndjson")])
    v.add_tv("replay", res)
    cache = {}
    for r in res:
        if not r["accepted"]:
            _gen_violation(v, r, cache)
    v.cov["evaluations"] = len(obj["events"])
    v.cov["distinct_nontrivial"] = 0
    v.cov["samples"] = [json.dumps(obj["events"][-1])[:400]]
    return 1 if v.violations else 0



# ======================================================================= comparison family
BP_Q = [("bp_w6a2", "MCBitParallel.tla", "MCBitParallel_w6a2.cfg"), ("bp_w5a3", "MCBitParallel.tla", "MCBitParallel_w5a3.cfg")]
BP_T = BP_Q + [("bp_w8a2", "MCBitParallel.tla", "MCBitParallel_w8a2.cfg"), ("bp_w6a3", "MCBitParallel.tla", "MCBitParallel_w6a3.cfg")]
LAWS = [("laws_strings", "MCCompareLaws.tla", "MCCompareLaws_strings.cfg"), ("laws_hashes", "MCCompareLaws.tla", "MCCompareLaws_hashes.cfg")]
CMP = {
    "C02": {"modes": ["pairs", "ss"], "mc": {"quick": LAWS[1:] + BP_Q[:1], "thorough": LAWS + BP_T},
            "rule": "hash pairs (raw texts with runs, short and long, related by edits / rotation / run insertion / crossing, all block size relations, all 31x31 index pairs) through every comparison entry point in both orders; plus the per-block-hash score on all pairs of normalised strings over {0,1} of length 7..8(9) x effective index {0..4,31}. non-trivial = pairs that are comparison candidates (a block hash pair shares a 7-gram, so the edit distance / scaling / capping path is taken)",
            "nontrivial": ("cmp", "candidate_pairs")},
    "C08": {"modes": ["ed"], "mc": {"quick": BP_Q, "thorough": BP_T},
            "rule": "edit distance through BlockHashPositionArray (fresh, reversed operands, re-initialised) and through comparison targets: exhaustively all pairs over {0,1} up to length 6(8) and {0,1,2} up to 4(5), plus random/structured pairs over 64 symbols up to length 64 (runs, alternating patterns, shifted copies, subsequences). non-trivial = all pairs (every pair runs the recurrence); counted = pairs",
            "nontrivial": ("ed", "pairs")},
    "C09": {"modes": ["sub"], "mc": {"quick": BP_Q, "thorough": BP_T},
            "rule": "has_common_substring / is_comparison_candidate with a 7-gram planted at every (offset in a, offset in b) for lengths {7,8,14,15,64} (thorough: {7,8,13,14,15,32,63,64}), near misses of 6, random related pairs, repeated occurrences. non-trivial = planted positives",
            "nontrivial": ("sub", "planted_positive")},
    "C10": {"modes": ["pairs"], "mc": {"quick": LAWS, "thorough": LAWS},
            "rule": "the pair events of C02 (score both orders, candidate both orders, windows / numeric windows / index windows of the left operand); the laws are theorems of the spec on complete small domains (MC) and are re-checked on the recorded values. non-trivial = candidate pairs",
            "nontrivial": ("cmp", "candidate_pairs")},
    "C17": {"modes": ["reuse"], "mc": {"quick": [("target", "MCTarget.tla", "MCTarget.cfg")], "thorough": [("target", "MCTarget.tla", "MCTarget.cfg")]},
            "rule": "histories of init_from / From / clear over pools of hashes of differing lengths and alphabets (empty, shorter, reversed, superset), observed after every step: is_valid, full_eq(fresh), is_equiv / compare / candidate against every pool member, all 64 masks; plus the clustering loop (one target re-initialised thousands of times). non-trivial = re-initialisation steps",
            "nontrivial": ("reuse", "steps")},
    "C20": {"modes": ["tables"], "mc": {"quick": LAWS[:1], "thorough": LAWS[:1]},
            "rule": "complete finite domains dumped from the implementation and judged row by row by TLC: the set {x in u32 : is_valid(x)} (all 2^32 swept), all 256 logarithms, all 31x31 relations, raw score on all (l1,l2,d), score cap on 0..31 x 0..64 x 0..64. non-trivial = table rows",
            "nontrivial": None},
}


def _cmp_violation(v, r, cache):
    evs = cache.setdefault(r["file"], read_events(r["file"]))
    k = r["rejected_at"]
    unit = unit_of(evs, k, None)
    what = "comparison trace rejected at event %d of %s: observed %s ; %s" % (k, os.path.basename(r["file"]), json.dumps(evs[k - 1])[:500], (r["mismatch"] or ["no spec step matches this event"])[0][:600])
    v.violation(what, {"family": "cmp", "property": v.pid, "events": unit[-40:] if evs[k - 1]["ev"] not in ("tobs", "pobs") else unit, "offending_event": evs[k - 1], "spec": r["mismatch"][:1]})


def check_cmp(pid, tier):
    v = Verdict(pid, tier)
    cfgp = CMP[pid]
    binp = build_harness()
    files = []
    stats = {}
    for mode in cfgp["modes"]:
        out = fresh_dir("tr_%s_%s" % (pid, mode))
        stats.update(run_harness(binp, ["cmp", mode, "--seed", str(seed()), "--tier", tier, "--out", out, "--shards", str(TV_PAR)]))
        files += sorted(glob.glob(os.path.join(out, "*.ndjson")))
    for name, mod, cfg in cfgp["mc"][tier]:
        v.add_mc(run_mc(name, mod, cfg))
    res = run_tv("TraceCmp.tla", "TraceCmp.cfg", files, timeout=3000)
    v.add_tv("TraceCmp:" + "+".join(cfgp["modes"]), res)
    cache = {}
    for r in res:
        if not r["accepted"]:
            _cmp_violation(v, r, cache)
    nev = sum(1 for f in files for _ in open(f))
    v.cov["evaluations"] = nev
    nt = cfgp["nontrivial"]
    v.cov["distinct_nontrivial"] = stats.get(nt[0], {}).get(nt[1], 0) if nt else nev
    v.cov["driver_stats"] = stats
    v.cov["rule"] = cfgp["rule"]
    v.cov["exhaustive"] = pid == "C20"
    evs = read_events(files[0])
    v.cov["samples"] = [json.dumps(e)[:500] for e in evs[:3]]
    v.assumptions = ["TLC/SANY 1.8.0, CommunityModules", "Compare.tla transcribes ssdeep 2.14.1 fuzzy_compare / score_strings / edit_distn (insert/delete only)", "the harness only serialises what the API returned (radix changes for 64-bit values)"]
    return v.finish()


def replay_cmp(pid, path):
    v = Verdict(pid, "quick")
    obj = json.load(open(path))
    binp = build_harness()
    out = fresh_dir("replay_" + pid)
    inp = os.path.join(out, "in.ndjson")
    with open(inp, "w") as f:
        for e in obj["events"]:
            f.write(json.dumps(e) + "\n")
    run_harness(binp, ["replay", "cmp", inp, "--out", out])
    files = sorted(glob.glob(os.path.join(out, "**", "*.ndjson"), recursive=True))
    files = [x for x in files if not x.endswith("in.ndjson")]
    res = run_tv("TraceCmp.tla", "TraceCmp.cfg", files)
    cache = {}
    for r in res:
        if not r["accepted"]:
            _cmp_violation(v, r, cache)
    return 1 if v.violations else 0


CHECKS = {"C01": check_gen, "C03": check_gen, "C12": check_gen, "C13": check_gen}
REPLAY = {"C01": replay_gen, "C03": replay_gen, "C12": replay_gen, "C13": replay_gen}
for _p in CMP:
    CHECKS[_p] = check_cmp
    REPLAY[_p] = replay_cmp


def replay(pid, path):
    return REPLAY[pid](pid, path)


def setup():
    build_harness()
    for m in sorted(glob.glob(os.path.join(SPEC, "*.tla"))):
        p = subprocess.run(["tla-sany", m], cwd=SPEC, stdout=subprocess.PIPE, stderr=subprocess.STDOUT, text=True)
        if p.returncode != 0 or "Semantic errors" in p.stdout or "Fatal errors" in p.stdout or "Could not parse" in p.stdout:
            log(p.stdout[-3000:])
            raise ToolError("SANY rejects " + m)
    log("setup ok")
    return 0


def selftest(tier):
    log("selftest: not yet implemented")
    return 0
