"""Per-property decision procedures (DESIGN.md section 5)."""
import glob, json, os, shutil, subprocess, sys, time
from vlib import *


# ======================================================================= generator family
GEN_MC = {
    "C01": {"quick": [("ref_n2", "MCRef.tla", "MCRef_n2.cfg"), ("gen_quick", "MCGenerator.tla", "MCGenerator_quick.cfg")],
            "thorough": [("ref_n2", "MCRef.tla", "MCRef_n2.cfg"), ("ref_n3", "MCRef.tla", "MCRef_n3.cfg"), ("ref_n3_l6", "MCRef.tla", "MCRef_n3_l6.cfg"),
                         ("gen_k3", "MCGenerator.tla", "MCGenerator_k3.cfg")]},
    "C03": {"quick": [("gen_quick", "MCGenerator.tla", "MCGenerator_quick.cfg")],
            "thorough": [("gen_k3", "MCGenerator.tla", "MCGenerator_k3.cfg")]},
    "C12": {"quick": [("gen_reset", "MCGenerator.tla", "MCGenerator_reset.cfg"), ("gen_hint", "MCGenerator.tla", "MCGenerator_hint.cfg")],
            "thorough": [("gen_reset", "MCGenerator.tla", "MCGenerator_reset.cfg"), ("gen_hint", "MCGenerator.tla", "MCGenerator_hint.cfg")]},
    "C13": {"quick": [("zeros", "MCZeros.tla", "MCZeros.cfg"), ("gen_hint", "MCGenerator.tla", "MCGenerator_hint.cfg")],
            "thorough": [("zeros", "MCZeros.tla", "MCZeros.cfg"), ("gen_hint", "MCGenerator.tla", "MCGenerator_hint.cfg")]},
}
GEN_MODE = {"C01": "inputs", "C03": "hist3", "C12": "hist12", "C13": "sizes"}
GEN_REQUIRED = {"MCGenerator.tla": ["Byte", "BeginSlice", "SliceByte"], "MCRef.tla": ["Next"]}
GEN_RULE = {
    "C01": "inputs from 6 classes (uniform, low-entropy, periodic, zero-heavy, trigger-word adversarial, one-level piece floods) with lengths on/around block size borders; each hashed in one slice and by hash_buf, all four finalisers compared with L1 by TLC. non-trivial = distinct units in which the real generator performed at least one block hash elimination (bhidx_start > 0 by the guarded probe)",
    "C03": "call histories: one payload delivered by random schedules of update/update_by_iter/update_by_byte/+= forms, clones, finalisation after every call, hash_buf, hash_stream with a chunking reader; every observation compared with L1 on the concatenated prefix. non-trivial = distinct histories with at least one elimination",
    "C12": "call histories with set_fixed_input_size(_in_usize) before / in the middle / at the end (right, wrong, too large, repeated) and reset() followed by a second full history. non-trivial = distinct histories with at least one elimination",
    "C13": "generators positioned after N zero bytes (guarded hook, validated against really feeding zeros) followed by trigger-word suffixes at every block size border 192*2^n +-2, around 96 GiB and 192 GiB, small-input query. non-trivial = distinct scenarios with at least one elimination",
}


def _gen_violation(v, r, events_cache):
    evs = events_cache.setdefault(r["file"], read_events(r["file"]))
    k = r["rejected_at"]
    unit = unit_of(evs, k, None)
    what = "generator trace rejected at event %d of %s: observed %s ; %s" % (k, os.path.basename(r["file"]), json.dumps(evs[k - 1])[:600], (r["mismatch"] or ["no spec step matches this event"])[0][:1200])
    v.violation(what, {"family": "gen", "property": v.pid, "events": unit, "offending_event": evs[k - 1], "spec": r["mismatch"][:1]})


def check_gen(pid, tier):
    v = Verdict(pid, tier)
    binp = build_harness()
    out = fresh_dir("tr_" + pid)
    stats = run_harness(binp, ["gen", GEN_MODE[pid], "--seed", str(seed()), "--tier", tier, "--out", out, "--shards", str(TV_PAR)])
    for name, mod, cfg in GEN_MC[pid][tier]:
        v.add_mc(run_mc(name, mod, cfg, required_actions=GEN_REQUIRED.get(mod) if tier == "thorough" else None))
    files = sorted(glob.glob(os.path.join(out, "*.ndjson")))
    res = run_tv("TraceGen.tla", "TraceGen.cfg", files, timeout=3000)
    v.add_tv("TraceGen:" + GEN_MODE[pid], res)
    cache = {}
    for r in res:
        if not r["accepted"]:
            _gen_violation(v, r, cache)
    st = list(stats.values())[0] if stats else {}
    nev = sum(1 for f in files for _ in open(f))
    v.cov["evaluations"] = nev
    v.cov["distinct_nontrivial"] = st.get("units_with_elimination", 0)
    v.cov["units"] = st.get("units", 0)
    v.cov["units_with_last_hash"] = st.get("units_with_last_hash", 0)
    v.cov["rule"] = GEN_RULE[pid]
    for f in files[:1]:
        evs = read_events(f)
        v.cov["samples"] = [json.dumps(e)[:400] for e in evs[:4]]
    v.assumptions = ["TLC/SANY 1.8.0, CommunityModules Json/IOUtils/Bitwise", "L1 transcribes ssdeep 2.14.1 (cross-checked: L1=L0 and L2 refines L1 by exhaustive TLC at scaled constants)", "the harness only serialises what the API returned"]
    return v.finish()


def replay_gen(pid, path):
    v = Verdict(pid, "quick")
    obj = json.load(open(path))
    binp = build_harness()
    out = fresh_dir("replay_" + pid)
    inp = os.path.join(out, "in.ndjson")
    with open(inp, "w") as f:
        for e in obj["events"]:
            f.write(json.dumps(e) + "\n")
    run_harness(binp, ["replay", "gen", inp, "--out", out])
    res = run_tv("TraceGen.tla", "TraceGen.cfg", [os.path.join(out, "replay_00.ndjson")])
    v.add_tv("replay", res)
    cache = {}
    for r in res:
        if not r["accepted"]:
            _gen_violation(v, r, cache)
    v.cov["evaluations"] = len(obj["events"])
    v.cov["distinct_nontrivial"] = 0
    v.cov["samples"] = [json.dumps(obj["events"][-1])[:400]]
    return 1 if v.violations else 0


CHECKS = {"C01": check_gen, "C03": check_gen, "C12": check_gen, "C13": check_gen}
REPLAY = {"C01": replay_gen, "C03": replay_gen, "C12": replay_gen, "C13": replay_gen}


def replay(pid, path):
    return REPLAY[pid](pid, path)


def setup():
    build_harness()
    for m in sorted(glob.glob(os.path.join(SPEC, "*.tla"))):
        p = subprocess.run(["tla-sany", m], cwd=SPEC, stdout=subprocess.PIPE, stderr=subprocess.STDOUT, text=True)
        if p.returncode != 0 or "Semantic errors" in p.stdout or "Fatal errors" in p.stdout or "Could not parse" in p.stdout:
            log(p.stdout[-3000:])
            raise ToolError("SANY rejects " + m)
    log("setup ok")
    return 0


def selftest(tier):
    log("selftest: not yet implemented")
    return 0
