//! Trigger words: 7-byte words whose rolling hash + 1 is divisible by exactly 3 * 2^k.
//! Found once by brute force with the library's own RollingHash and stored in
//! /verif/corpus/trigger_words.json.  They are only a way to AIM inputs at rare engine
//! paths; what a word really does is recomputed by the specification in every run.
#![allow(deprecated)]
use ssdeep::internal_hashes::RollingHash;
use std::collections::BTreeMap;

pub fn roll_of(word: &[u8]) -> u32 {
    let mut r = RollingHash::new();
    r.update(word);
    r.value()
}
/// -1: no piece end; k: rolling hash + 1 divisible by exactly 3 * 2^k.
pub fn level_of_roll(roll: u32) -> i32 {
    let v = roll.wrapping_add(1);
    if v == 0 || v % 3 != 0 {
        -1
    } else {
        v.trailing_zeros() as i32
    }
}

pub struct Words {
    pub levels: Vec<Vec<[u8; 7]>>, // 0..=30
    pub maxroll: Vec<[u8; 7]>,     // rolling hash 0xFFFFFFFF
    pub zeroroll: Vec<[u8; 7]>,    // rolling hash 0, not all-zero bytes
    pub none: Vec<[u8; 7]>,        // no trigger
}

pub fn find(per_level: usize, threads: usize, seed: u64) -> Words {
    use std::sync::{Arc, Mutex};
    let found: Arc<Mutex<BTreeMap<i32, Vec<[u8; 7]>>>> = Arc::new(Mutex::new(BTreeMap::new()));
    let done = Arc::new(std::sync::atomic::AtomicBool::new(false));
    let mut hs = vec![];
    for t in 0..threads {
        let found = found.clone();
        let done = done.clone();
        hs.push(std::thread::spawn(move || {
            let mut rng = crate::util::Rng::new(seed.wrapping_mul(1000).wrapping_add(t as u64));
            loop {
                if done.load(std::sync::atomic::Ordering::Relaxed) {
                    return;
                }
                let p = [(rng.next() & 0xff) as u8, (rng.next() & 0xff) as u8, (rng.next() & 0xff) as u8];
                let mut r3 = RollingHash::new();
                r3.update(&p);
                let mut local: Vec<(i32, [u8; 7])> = vec![];
                for b4 in 0..=255u8 {
                    let mut r4 = r3;
                    r4.update_by_byte(b4);
                    for b5 in 0..=255u8 {
                        let mut r5 = r4;
                        r5.update_by_byte(b5);
                        for b6 in 0..=255u8 {
                            let mut r6 = r5;
                            r6.update_by_byte(b6);
                            for b7 in 0..=255u8 {
                                let mut r7 = r6;
                                r7.update_by_byte(b7);
                                let v = r7.value();
                                let w = v.wrapping_add(1);
                                // keys: 18..=30 levels (rare), 100 = maxroll, 101 = zero roll
                                if w == 0 {
                                    local.push((100, [p[0], p[1], p[2], b4, b5, b6, b7]));
                                } else if v == 0 {
                                    local.push((101, [p[0], p[1], p[2], b4, b5, b6, b7]));
                                } else if w & 0x3ffff == 0 && w % 3 == 0 {
                                    local.push((w.trailing_zeros() as i32, [p[0], p[1], p[2], b4, b5, b6, b7]));
                                }
                            }
                        }
                    }
                    if done.load(std::sync::atomic::Ordering::Relaxed) {
                        break;
                    }
                }
                let mut f = found.lock().unwrap();
                for (k, w) in local {
                    let e = f.entry(k).or_default();
                    if e.len() < per_level {
                        e.push(w);
                    }
                }
                let complete = (18..=30).chain([100, 101]).all(|k| f.get(&k).map(|v| v.len() >= per_level).unwrap_or(false));
                if complete {
                    done.store(true, std::sync::atomic::Ordering::Relaxed);
                    return;
                }
            }
        }));
    }
    for h in hs {
        h.join().unwrap();
    }
    let f = found.lock().unwrap();
    let mut levels: Vec<Vec<[u8; 7]>> = vec![vec![]; 31];
    for k in 18..=30 {
        levels[k] = f.get(&(k as i32)).cloned().unwrap_or_default();
    }
    // common levels and non-triggering words by random sampling
    let mut rng = crate::util::Rng::new(seed);
    let mut none = vec![];
    let mut guard = 0u64;
    while (levels[..18].iter().any(|v| v.len() < per_level) || none.len() < per_level) && guard < 2_000_000_000 {
        guard += 1;
        let x = rng.next();
        let w = [x as u8, (x >> 8) as u8, (x >> 16) as u8, (x >> 24) as u8, (x >> 32) as u8, (x >> 40) as u8, (x >> 48) as u8];
        let lv = level_of_roll(roll_of(&w));
        if lv < 0 {
            if none.len() < per_level {
                none.push(w);
            }
        } else if (lv as usize) < 18 && levels[lv as usize].len() < per_level {
            levels[lv as usize].push(w);
        }
    }
    Words {
        levels,
        maxroll: f.get(&100).cloned().unwrap_or_default(),
        zeroroll: f.get(&101).cloned().unwrap_or_default(),
        none,
    }
}

pub fn save(w: &Words, path: &str) {
    let mut s = String::from("{\n");
    s.push_str("\"levels\": [\n");
    for (k, ws) in w.levels.iter().enumerate() {
        let items: Vec<String> = ws.iter().map(|x| crate::util::jarr_u8(x)).collect();
        s.push_str(&format!("  [{}]{}\n", items.join(","), if k + 1 < w.levels.len() { "," } else { "" }));
    }
    s.push_str("],\n");
    for (name, ws, last) in [("maxroll", &w.maxroll, false), ("zeroroll", &w.zeroroll, false), ("none", &w.none, true)] {
        let items: Vec<String> = ws.iter().map(|x| crate::util::jarr_u8(x)).collect();
        s.push_str(&format!("\"{}\": [{}]{}\n", name, items.join(","), if last { "" } else { "," }));
    }
    s.push_str("}\n");
    std::fs::write(path, s).unwrap();
}

pub fn load(path: &str) -> Words {
    let v: serde_json::Value = serde_json::from_str(&std::fs::read_to_string(path).expect("trigger_words.json")).unwrap();
    fn ws(v: &serde_json::Value) -> Vec<[u8; 7]> {
        v.as_array()
            .unwrap()
            .iter()
            .map(|w| {
                let a = w.as_array().unwrap();
                let mut o = [0u8; 7];
                for i in 0..7 {
                    o[i] = a[i].as_u64().unwrap() as u8;
                }
                o
            })
            .collect()
    }
    Words {
        levels: v["levels"].as_array().unwrap().iter().map(ws).collect(),
        maxroll: ws(&v["maxroll"]),
        zeroroll: ws(&v["zeroroll"]),
        none: ws(&v["none"]),
    }
}
