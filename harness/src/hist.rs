//! Object histories (C11, C15): random chains of safe operations over typed slots whose
//! destinations still hold earlier content, and constructor calls with in- and out-of-contract
//! arguments.  After every step the written slot is observed through the public API.
use crate::cmp::{alphabet, cap_runs, pick_bh_len, rand_bh, related, H};
use crate::util::*;
use ssdeep::{DualFuzzyHash, FuzzyHash, LongDualFuzzyHash, LongFuzzyHash, LongRawFuzzyHash, RawFuzzyHash};
use std::panic::{catch_unwind, AssertUnwindSafe};

#[derive(Clone, Copy)]
pub enum Obj {
    RS(RawFuzzyHash),
    RL(LongRawFuzzyHash),
    NS(FuzzyHash),
    NL(LongFuzzyHash),
    DS(DualFuzzyHash),
    DL(LongDualFuzzyHash),
}
pub const TYPES: [&str; 6] = ["RS", "RL", "NS", "NL", "DS", "DL"];
impl Obj {
    pub fn tname(&self) -> &'static str {
        match self {
            Obj::RS(_) => "RS",
            Obj::RL(_) => "RL",
            Obj::NS(_) => "NS",
            Obj::NL(_) => "NL",
            Obj::DS(_) => "DS",
            Obj::DL(_) => "DL",
        }
    }
    pub fn fresh(t: &str) -> Obj {
        match t {
            "RS" => Obj::RS(RawFuzzyHash::new()),
            "RL" => Obj::RL(LongRawFuzzyHash::new()),
            "NS" => Obj::NS(FuzzyHash::new()),
            "NL" => Obj::NL(LongFuzzyHash::new()),
            "DS" => Obj::DS(DualFuzzyHash::new()),
            _ => Obj::DL(LongDualFuzzyHash::new()),
        }
    }
    /// observation of the object through the public API, everything under catch_unwind
    pub fn observe(&self) -> String {
        macro_rules! plain {
            ($o:expr, $T:ty) => {{
                let o = $o;
                let valid = catch_unwind(AssertUnwindSafe(|| o.is_valid()));
                let dbg = catch_unwind(AssertUnwindSafe(|| format!("{:?}", o).len() > 0)).is_ok();
                let (k, a, b) = (o.log_block_size(), o.block_hash_1().to_vec(), o.block_hash_2().to_vec());
                let fulleq = catch_unwind(AssertUnwindSafe(|| {
                    let rebuilt = <$T>::new_from_internals_near_raw(k, &a, &b);
                    rebuilt.full_eq(o) && o.full_eq(&rebuilt) && rebuilt == *o
                }));
                let txt = catch_unwind(AssertUnwindSafe(|| o.to_string())).unwrap_or_default();
                format!(
                    "{{\"k\":{},\"a\":{},\"b\":{},\"valid\":{},\"fulleq\":{},\"dbg\":{},\"txt\":{},\"isn\":{}}}",
                    k, jarr_u8(&a), jarr_u8(&b), valid.unwrap_or(false), fulleq.unwrap_or(false), dbg, jarr_u8(txt.as_bytes()),
                    catch_unwind(AssertUnwindSafe(|| o.is_normalized())).unwrap_or(false)
                )
            }};
        }
        macro_rules! dual {
            ($o:expr, $T:ty, $R:ty) => {{
                let o = $o;
                let valid = catch_unwind(AssertUnwindSafe(|| o.is_valid()));
                let dbg = catch_unwind(AssertUnwindSafe(|| format!("{:?}", o).len() > 0)).is_ok();
                let raw = catch_unwind(AssertUnwindSafe(|| o.to_raw_form()));
                match raw {
                    Ok(r) => {
                        let (k, a, b) = (r.log_block_size(), r.block_hash_1().to_vec(), r.block_hash_2().to_vec());
                        let fulleq = catch_unwind(AssertUnwindSafe(|| {
                            let rebuilt = <$T>::new_from_internals_near_raw(k, &a, &b);
                            rebuilt == *o && rebuilt.cmp(o) == std::cmp::Ordering::Equal
                        }));
                        let txt = catch_unwind(AssertUnwindSafe(|| o.to_raw_form().to_string())).unwrap_or_default();
                        format!(
                            "{{\"k\":{},\"a\":{},\"b\":{},\"valid\":{},\"fulleq\":{},\"dbg\":{},\"txt\":{},\"isn\":{}}}",
                            k, jarr_u8(&a), jarr_u8(&b), valid.unwrap_or(false) && r.is_valid(), fulleq.unwrap_or(false), dbg, jarr_u8(txt.as_bytes()),
                            catch_unwind(AssertUnwindSafe(|| o.is_normalized())).unwrap_or(false)
                        )
                    }
                    Err(_) => format!("{{\"k\":0,\"a\":[],\"b\":[],\"valid\":false,\"fulleq\":false,\"dbg\":{},\"txt\":[],\"isn\":false}}", dbg),
                }
            }};
        }
        match self {
            Obj::RS(o) => plain!(o, RawFuzzyHash),
            Obj::RL(o) => plain!(o, LongRawFuzzyHash),
            Obj::NS(o) => plain!(o, FuzzyHash),
            Obj::NL(o) => plain!(o, LongFuzzyHash),
            Obj::DS(o) => dual!(o, DualFuzzyHash, RawFuzzyHash),
            Obj::DL(o) => dual!(o, LongDualFuzzyHash, LongRawFuzzyHash),
        }
    }
}

/// (op name, source type, destination type); the destination is overwritten (or written
/// into, for the `into_mut_*` / `init_*` / `try_into_mut_*` forms)
pub const OPS: &[(&str, &str, &str)] = &[
    // raw <-> normalised
    ("normalize", "RS", "NS"), ("normalize", "RL", "NL"), ("normalize", "NS", "NS"), ("normalize", "NL", "NL"),
    ("from_raw", "RS", "NS"), ("from_raw", "RL", "NL"),
    ("from_raw_form", "RS", "NS"), ("from_raw_form", "RL", "NL"),
    ("clone_normalized", "RS", "RS"), ("clone_normalized", "RL", "RL"), ("clone_normalized", "NS", "NS"), ("clone_normalized", "NL", "NL"),
    ("to_raw_form", "NS", "RS"), ("to_raw_form", "NL", "RL"),
    ("into_mut_raw_form", "NS", "RS"), ("into_mut_raw_form", "NL", "RL"),
    ("from_norm", "NS", "RS"), ("from_norm", "NL", "RL"),
    ("from_normalized", "NS", "RS"), ("from_normalized", "NL", "RL"),
    // short <-> long
    ("to_long_form", "RS", "RL"), ("to_long_form", "NS", "NL"),
    ("into_mut_long_form", "RS", "RL"), ("into_mut_long_form", "NS", "NL"),
    ("from_short", "RS", "RL"), ("from_short", "NS", "NL"), ("from_short", "NS", "RL"),
    ("from_short_form", "RS", "RL"), ("from_short_form", "NS", "NL"),
    ("try_into_mut_short", "RL", "RS"), ("try_into_mut_short", "NL", "NS"),
    ("try_from_long", "RL", "RS"), ("try_from_long", "NL", "NS"),
    // in place
    ("normalize_in_place", "RS", "RS"), ("normalize_in_place", "RL", "RL"), ("normalize_in_place", "NS", "NS"), ("normalize_in_place", "NL", "NL"),
    ("normalize_in_place", "DS", "DS"), ("normalize_in_place", "DL", "DL"),
    // plain <-> dual
    ("dual_from_raw_form", "RS", "DS"), ("dual_from_raw_form", "RL", "DL"),
    ("dual_init_from_raw_form", "RS", "DS"), ("dual_init_from_raw_form", "RL", "DL"),
    ("dual_from_raw", "RS", "DS"), ("dual_from_raw", "RL", "DL"),
    ("dual_from_normalized", "NS", "DS"), ("dual_from_normalized", "NL", "DL"),
    ("dual_from_norm", "NS", "DS"), ("dual_from_norm", "NL", "DL"),
    ("dual_to_raw_form", "DS", "RS"), ("dual_to_raw_form", "DL", "RL"),
    ("dual_into_mut_raw_form", "DS", "RS"), ("dual_into_mut_raw_form", "DL", "RL"),
    ("dual_to_normalized", "DS", "NS"), ("dual_to_normalized", "DL", "NL"),
    ("dual_as_normalized", "DS", "NS"), ("dual_as_normalized", "DL", "NL"),
    // plain copies
    ("copy", "RS", "RS"), ("copy", "RL", "RL"), ("copy", "NS", "NS"), ("copy", "NL", "NL"), ("copy", "DS", "DS"), ("copy", "DL", "DL"),
    // Clone::clone_from into the existing (used) destination
    ("clone_from", "RS", "RS"), ("clone_from", "RL", "RL"), ("clone_from", "NS", "NS"), ("clone_from", "NL", "NL"), ("clone_from", "DS", "DS"), ("clone_from", "DL", "DL"),
];

/// apply one operation: returns "ok" / "overflow"; `dst` is modified in place
pub fn apply(op: &str, src: &Obj, dst: &mut Obj) -> &'static str {
    macro_rules! set {
        ($variant:ident, $e:expr) => {{
            *dst = Obj::$variant($e);
            "ok"
        }};
    }
    match (op, src, &mut *dst) {
        ("normalize", Obj::RS(s), _) => set!(NS, s.normalize()),
        ("normalize", Obj::RL(s), _) => set!(NL, s.normalize()),
        ("normalize", Obj::NS(s), _) => set!(NS, s.normalize()),
        ("normalize", Obj::NL(s), _) => set!(NL, s.normalize()),
        ("from_raw", Obj::RS(s), _) => set!(NS, FuzzyHash::from(*s)),
        ("from_raw", Obj::RL(s), _) => set!(NL, LongFuzzyHash::from(*s)),
        ("from_raw_form", Obj::RS(s), _) => set!(NS, FuzzyHash::from_raw_form(s)),
        ("from_raw_form", Obj::RL(s), _) => set!(NL, LongFuzzyHash::from_raw_form(s)),
        ("clone_normalized", Obj::RS(s), _) => set!(RS, s.clone_normalized()),
        ("clone_normalized", Obj::RL(s), _) => set!(RL, s.clone_normalized()),
        ("clone_normalized", Obj::NS(s), _) => set!(NS, s.clone_normalized()),
        ("clone_normalized", Obj::NL(s), _) => set!(NL, s.clone_normalized()),
        ("to_raw_form", Obj::NS(s), _) => set!(RS, s.to_raw_form()),
        ("to_raw_form", Obj::NL(s), _) => set!(RL, s.to_raw_form()),
        ("into_mut_raw_form", Obj::NS(s), Obj::RS(d)) => {
            s.into_mut_raw_form(d);
            "ok"
        }
        ("into_mut_raw_form", Obj::NL(s), Obj::RL(d)) => {
            s.into_mut_raw_form(d);
            "ok"
        }
        ("from_norm", Obj::NS(s), _) => set!(RS, RawFuzzyHash::from(*s)),
        ("from_norm", Obj::NL(s), _) => set!(RL, LongRawFuzzyHash::from(*s)),
        ("from_normalized", Obj::NS(s), _) => set!(RS, RawFuzzyHash::from_normalized(s)),
        ("from_normalized", Obj::NL(s), _) => set!(RL, LongRawFuzzyHash::from_normalized(s)),
        ("to_long_form", Obj::RS(s), _) => set!(RL, s.to_long_form()),
        ("to_long_form", Obj::NS(s), _) => set!(NL, s.to_long_form()),
        ("into_mut_long_form", Obj::RS(s), Obj::RL(d)) => {
            s.into_mut_long_form(d);
            "ok"
        }
        ("into_mut_long_form", Obj::NS(s), Obj::NL(d)) => {
            s.into_mut_long_form(d);
            "ok"
        }
        ("from_short", Obj::RS(s), Obj::RL(_)) => set!(RL, LongRawFuzzyHash::from(*s)),
        ("from_short", Obj::NS(s), Obj::NL(_)) => set!(NL, LongFuzzyHash::from(*s)),
        ("from_short", Obj::NS(s), Obj::RL(_)) => set!(RL, LongRawFuzzyHash::from(*s)),
        ("from_short_form", Obj::RS(s), _) => set!(RL, LongRawFuzzyHash::from_short_form(s)),
        ("from_short_form", Obj::NS(s), _) => set!(NL, LongFuzzyHash::from_short_form(s)),
        ("try_into_mut_short", Obj::RL(s), Obj::RS(d)) => match s.try_into_mut_short(d) {
            Ok(()) => "ok",
            Err(_) => "overflow",
        },
        ("try_into_mut_short", Obj::NL(s), Obj::NS(d)) => match s.try_into_mut_short(d) {
            Ok(()) => "ok",
            Err(_) => "overflow",
        },
        ("try_from_long", Obj::RL(s), _) => match RawFuzzyHash::try_from(*s) {
            Ok(o) => set!(RS, o),
            Err(_) => "overflow",
        },
        ("try_from_long", Obj::NL(s), _) => match FuzzyHash::try_from(*s) {
            Ok(o) => set!(NS, o),
            Err(_) => "overflow",
        },
        ("normalize_in_place", _, Obj::RS(d)) => {
            d.normalize_in_place();
            "ok"
        }
        ("normalize_in_place", _, Obj::RL(d)) => {
            d.normalize_in_place();
            "ok"
        }
        ("normalize_in_place", _, Obj::NS(d)) => {
            d.normalize_in_place();
            "ok"
        }
        ("normalize_in_place", _, Obj::NL(d)) => {
            d.normalize_in_place();
            "ok"
        }
        ("normalize_in_place", _, Obj::DS(d)) => {
            d.normalize_in_place();
            "ok"
        }
        ("normalize_in_place", _, Obj::DL(d)) => {
            d.normalize_in_place();
            "ok"
        }
        ("dual_from_raw_form", Obj::RS(s), _) => set!(DS, DualFuzzyHash::from_raw_form(s)),
        ("dual_from_raw_form", Obj::RL(s), _) => set!(DL, LongDualFuzzyHash::from_raw_form(s)),
        ("dual_init_from_raw_form", Obj::RS(s), Obj::DS(d)) => {
            d.init_from_raw_form(s);
            "ok"
        }
        ("dual_init_from_raw_form", Obj::RL(s), Obj::DL(d)) => {
            d.init_from_raw_form(s);
            "ok"
        }
        ("dual_from_raw", Obj::RS(s), _) => set!(DS, DualFuzzyHash::from(*s)),
        ("dual_from_raw", Obj::RL(s), _) => set!(DL, LongDualFuzzyHash::from(*s)),
        ("dual_from_normalized", Obj::NS(s), _) => set!(DS, DualFuzzyHash::from_normalized(s)),
        ("dual_from_normalized", Obj::NL(s), _) => set!(DL, LongDualFuzzyHash::from_normalized(s)),
        ("dual_from_norm", Obj::NS(s), _) => set!(DS, DualFuzzyHash::from(*s)),
        ("dual_from_norm", Obj::NL(s), _) => set!(DL, LongDualFuzzyHash::from(*s)),
        ("dual_to_raw_form", Obj::DS(s), _) => set!(RS, s.to_raw_form()),
        ("dual_to_raw_form", Obj::DL(s), _) => set!(RL, s.to_raw_form()),
        ("dual_into_mut_raw_form", Obj::DS(s), Obj::RS(d)) => {
            s.into_mut_raw_form(d);
            "ok"
        }
        ("dual_into_mut_raw_form", Obj::DL(s), Obj::RL(d)) => {
            s.into_mut_raw_form(d);
            "ok"
        }
        ("dual_to_normalized", Obj::DS(s), _) => set!(NS, s.to_normalized()),
        ("dual_to_normalized", Obj::DL(s), _) => set!(NL, s.to_normalized()),
        ("dual_as_normalized", Obj::DS(s), _) => set!(NS, *s.as_normalized()),
        ("dual_as_normalized", Obj::DL(s), _) => set!(NL, *s.as_normalized()),
        ("copy", s, _) => {
            *dst = *s;
            "ok"
        }
        ("clone_from", Obj::RS(s), Obj::RS(d)) => { d.clone_from(s); "ok" }
        ("clone_from", Obj::RL(s), Obj::RL(d)) => { d.clone_from(s); "ok" }
        ("clone_from", Obj::NS(s), Obj::NS(d)) => { d.clone_from(s); "ok" }
        ("clone_from", Obj::NL(s), Obj::NL(d)) => { d.clone_from(s); "ok" }
        ("clone_from", Obj::DS(s), Obj::DS(d)) => { d.clone_from(s); "ok" }
        ("clone_from", Obj::DL(s), Obj::DL(d)) => { d.clone_from(s); "ok" }
        _ => "unsupported",
    }
}

pub struct Store {
    pub slots: Vec<Obj>,
}
impl Store {
    pub fn new() -> Store {
        // two slots per type
        let mut slots = vec![];
        for t in TYPES {
            slots.push(Obj::fresh(t));
            slots.push(Obj::fresh(t));
        }
        Store { slots }
    }
    pub fn of_type(&self, t: &str) -> Vec<usize> {
        (0..self.slots.len()).filter(|&i| self.slots[i].tname() == t).collect()
    }
}
fn jhv(h: &H) -> String {
    h.j_pub()
}
/// set a slot from internals (value must be in the contract of the type)
pub fn do_set(sh: &mut Shards, st: &mut Store, dst: usize, h: &H) {
    let t = st.slots[dst].tname();
    let r = catch_unwind(AssertUnwindSafe(|| match t {
        "RS" => Obj::RS(RawFuzzyHash::new_from_internals_near_raw(h.k, &h.a, &h.b)),
        "RL" => Obj::RL(LongRawFuzzyHash::new_from_internals(3u32 << h.k, &h.a, &h.b)),
        "NS" => Obj::NS(FuzzyHash::new_from_internals(3u32 << h.k, &h.a, &h.b)),
        "NL" => Obj::NL(LongFuzzyHash::new_from_internals_near_raw(h.k, &h.a, &h.b)),
        "DS" => Obj::DS(DualFuzzyHash::new_from_internals_near_raw(h.k, &h.a, &h.b)),
        _ => Obj::DL(LongDualFuzzyHash::new_from_internals(3u32 << h.k, &h.a, &h.b)),
    }));
    let res = match r {
        Ok(o) => {
            st.slots[dst] = o;
            "ok"
        }
        Err(_) => "panic",
    };
    sh.emit(&format!("{{\"ev\":\"op\",\"op\":\"set\",\"src\":{},\"dst\":{},\"st\":\"{}\",\"dt\":\"{}\",\"h\":{},\"res\":\"{}\",\"obs\":{}}}", dst, dst, t, t, jhv(h), res, st.slots[dst].observe()));
}
pub fn do_parse(sh: &mut Shards, st: &mut Store, dst: usize, text: &[u8]) {
    let t = st.slots[dst].tname();
    let r = catch_unwind(AssertUnwindSafe(|| -> Option<Obj> {
        Some(match t {
            "RS" => Obj::RS(RawFuzzyHash::from_bytes(text).ok()?),
            "RL" => Obj::RL(LongRawFuzzyHash::from_bytes(text).ok()?),
            "NS" => Obj::NS(FuzzyHash::from_bytes(text).ok()?),
            "NL" => Obj::NL(LongFuzzyHash::from_bytes(text).ok()?),
            "DS" => Obj::DS(DualFuzzyHash::from_bytes(text).ok()?),
            _ => Obj::DL(LongDualFuzzyHash::from_bytes(text).ok()?),
        })
    }));
    let res = match r {
        Ok(Some(o)) => {
            st.slots[dst] = o;
            "ok"
        }
        Ok(None) => "err",
        Err(_) => "panic",
    };
    sh.emit(&format!("{{\"ev\":\"op\",\"op\":\"parse\",\"src\":{},\"dst\":{},\"st\":\"{}\",\"dt\":\"{}\",\"t\":{},\"res\":\"{}\",\"obs\":{}}}", dst, dst, t, t, jarr_u8(text), res, st.slots[dst].observe()));
}
pub fn do_gen(sh: &mut Shards, st: &mut Store, dst: usize, data: &[u8]) {
    let t = st.slots[dst].tname();
    let mut g = ssdeep::Generator::new();
    g.update(data);
    match t {
        "RS" => st.slots[dst] = Obj::RS(g.finalize().unwrap()),
        "RL" => st.slots[dst] = Obj::RL(g.finalize_without_truncation().unwrap()),
        _ => return,
    }
    sh.emit(&format!("{{\"ev\":\"op\",\"op\":\"gen\",\"src\":{},\"dst\":{},\"st\":\"{}\",\"dt\":\"{}\",\"d\":{},\"res\":\"ok\",\"obs\":{}}}", dst, dst, t, t, jarr_u8(data), st.slots[dst].observe()));
}
pub fn do_op(sh: &mut Shards, st: &mut Store, op: &str, src: usize, dst: usize) {
    // the in-place form has no separate source
    let src = if op == "normalize_in_place" { dst } else { src };
    let s = st.slots[src];
    let stn = s.tname();
    let dtn = st.slots[dst].tname();
    let mut d = st.slots[dst];
    let r = catch_unwind(AssertUnwindSafe(|| apply(op, &s, &mut d)));
    let res = match r {
        Ok(x) => {
            st.slots[dst] = d;
            x
        }
        Err(_) => "panic",
    };
    sh.emit(&format!("{{\"ev\":\"op\",\"op\":\"{}\",\"src\":{},\"dst\":{},\"st\":\"{}\",\"dt\":\"{}\",\"res\":\"{}\",\"obs\":{}}}", op, src, dst, stn, dtn, res, st.slots[dst].observe()));
}

/// a value in the contract of type t
pub fn value_for(rng: &mut Rng, t: &str) -> H {
    let al = alphabet(rng);
    let cap2 = if t.ends_with('L') { 64 } else { 32 };
    let la = pick_bh_len(rng, 64);
    let lb = pick_bh_len(rng, cap2);
    let mut a = rand_bh(rng, la, &al, 0);
    let mut b = rand_bh(rng, lb, &al, 0);
    if rng.chance(1, 2) {
        a = related(rng, &a, 64, &al); // run insertion etc.
        b = related(rng, &b, cap2, &al);
    }
    if t.starts_with('N') {
        a = cap_runs(&a, 3);
        b = cap_runs(&b, 3);
    }
    H { k: rng.below(31) as u8, a, b }
}

pub fn random_history(sh: &mut Shards, rng: &mut Rng, len: usize) -> u64 {
    let mut st = Store::new();
    sh.emit("{\"ev\":\"hnew\"}");
    let mut steps = 0;
    for _ in 0..len {
        match rng.below(10) {
            0 | 1 => {
                let d = rng.range(0, st.slots.len() - 1);
                let t = st.slots[d].tname();
                let v = value_for(rng, t);
                do_set(sh, &mut st, d, &v);
            }
            2 => {
                let d = rng.range(0, st.slots.len() - 1);
                let t = st.slots[d].tname();
                let v = value_for(rng, t);
                // the text of a raw value (may contain runs): parsed by whatever type the slot has
                let raw = LongRawFuzzyHash::new_from_internals_near_raw(v.k, &v.a, &v.b);
                let mut text = raw.to_string().into_bytes();
                if rng.chance(1, 3) {
                    text.extend_from_slice(b",\"name\"");
                }
                do_parse(sh, &mut st, d, &text);
            }
            3 => {
                let d = *rng.pick(&[st.of_type("RS")[0], st.of_type("RL")[1]]);
                let n = rng.range(0, 4000);
                let data: Vec<u8> = (0..n).map(|_| rng.next() as u8).collect();
                do_gen(sh, &mut st, d, &data);
            }
            _ => {
                let &(op, stn, dtn) = rng.pick(OPS);
                let s = *rng.pick(&st.of_type(stn));
                let d = *rng.pick(&st.of_type(dtn));
                do_op(sh, &mut st, op, s, d);
            }
        }
        steps += 1;
    }
    steps
}
pub fn drive_hist(a: &Args, thorough: bool) {
    let mut sh = Shards::new(&a.out, "obj_hist", a.shards);
    let mut rng = Rng::new(a.seed ^ 0xdddd);
    let mut steps = 0u64;
    // (1) all chains of length <= 2 (quick) over the conversion graph from one long and one short
    //     value per source type would be large; instead: every operation from a slot holding a long
    //     value into a destination holding another long value, then every second operation
    for &(op, stn, dtn) in OPS {
        sh.next_unit();
        let mut st = Store::new();
        sh.emit("{\"ev\":\"hnew\"}");
        let si = st.of_type(stn)[0];
        let di = *st.of_type(dtn).last().unwrap();
        // dirty destination: the longest possible content
        let cap2d = if dtn.ends_with('L') { 64 } else { 32 };
        let dirty = if dtn.starts_with('N') { H { k: 9, a: (0..64).map(|i| (i % 64) as u8).collect(), b: (0..cap2d).map(|i| (63 - i % 64) as u8).collect() } } else { H { k: 9, a: vec![5u8; 64], b: vec![6u8; cap2d] } };
        do_set(&mut sh, &mut st, di, &dirty);
        for variant in 0..3 {
            let mut v = value_for(&mut rng, stn);
            if variant == 1 {
                v.b.truncate(3);
                v.a.truncate(5);
            }
            if variant == 2 && stn.ends_with('L') {
                // block hash 2 on both sides of the narrowing limit
                let al = alphabet(&mut rng);
                let l = *rng.pick(&[31usize, 32, 33, 34, 64]);
                v.b = rand_bh(&mut rng, l, &al, if stn.starts_with('N') { 3 } else { 0 });
            }
            do_set(&mut sh, &mut st, si, &v);
            do_op(&mut sh, &mut st, op, si, di);
            // follow with every operation that can read the written slot
            for &(op2, s2, d2) in OPS {
                if s2 == dtn && rng.chance(1, if thorough { 1 } else { 3 }) {
                    let d2i = st.of_type(d2)[0];
                    do_op(&mut sh, &mut st, op2, di, d2i);
                    steps += 1;
                }
            }
            do_set(&mut sh, &mut st, di, &dirty);
            steps += 3;
        }
    }
    // (2) random histories
    for _ in 0..(if thorough { 60000 } else { 250 }) {
        sh.next_unit();
        let len = rng.range(50, 200);
        steps += random_history(&mut sh, &mut rng, len);
    }
    println!("STATS {{\"hist\":{{\"steps\":{}}}}}", steps);
    sh.finish();
}

// ------------------------------------------------------------------ constructor contracts
fn jw32(n: u32) -> String {
    crate::util::jw32(n)
}
/// call one constructor under catch_unwind, record args and the outcome
pub fn ev_ctor(sh: &mut Shards, t: &str, f: &str, bs: u32, log: u8, a: &[u8], b: &[u8], l1: u8, l2: u8) {
    macro_rules! plain {
        ($T:ty, $S2:expr) => {{
            catch_unwind(AssertUnwindSafe(|| -> Option<Obj> {
                let o: $T = match f {
                    "new_from_internals" => <$T>::new_from_internals(bs, a, b),
                    "new_from_internals_near_raw" => <$T>::new_from_internals_near_raw(log, a, b),
                    "new_from_internals_raw" | "init_from_internals_raw" => {
                        let mut a64 = [0u8; 64];
                        let mut b2 = [0u8; $S2];
                        for (i, x) in a.iter().take(64).enumerate() {
                            a64[i] = *x;
                        }
                        for (i, x) in b.iter().take($S2).enumerate() {
                            b2[i] = *x;
                        }
                        if f == "new_from_internals_raw" {
                            <$T>::new_from_internals_raw(log, &a64, &b2, l1, l2)
                        } else {
                            let mut o = <$T>::new_from_internals_near_raw(5, &[1, 2, 3], &[4, 5]);
                            o.init_from_internals_raw(log, &a64, &b2, l1, l2);
                            o
                        }
                    }
                    _ => return None,
                };
                Some(o.into())
            }))
        }};
    }
    let r = match t {
        "RS" => plain!(RawFuzzyHash, 32),
        "RL" => plain!(LongRawFuzzyHash, 64),
        "NS" => plain!(FuzzyHash, 32),
        "NL" => plain!(LongFuzzyHash, 64),
        "DS" => catch_unwind(AssertUnwindSafe(|| -> Option<Obj> {
            Some(Obj::DS(match f {
                "new_from_internals" => DualFuzzyHash::new_from_internals(bs, a, b),
                "new_from_internals_near_raw" => DualFuzzyHash::new_from_internals_near_raw(log, a, b),
                _ => return None,
            }))
        })),
        _ => catch_unwind(AssertUnwindSafe(|| -> Option<Obj> {
            Some(Obj::DL(match f {
                "new_from_internals" => LongDualFuzzyHash::new_from_internals(bs, a, b),
                "new_from_internals_near_raw" => LongDualFuzzyHash::new_from_internals_near_raw(log, a, b),
                _ => return None,
            }))
        })),
    };
    #[cfg(feature = "unchecked")]
    let uobs: String = match &r {
        Ok(Some(_)) => {
            // the checked constructor accepted the arguments: the documented contract holds
            let u = catch_unwind(AssertUnwindSafe(|| -> Option<Obj> {
                unsafe {
                    Some(match (t, f) {
                        ("RS", "new_from_internals") => Obj::RS(RawFuzzyHash::new_from_internals_unchecked(bs, a, b)),
                        ("RL", "new_from_internals") => Obj::RL(LongRawFuzzyHash::new_from_internals_unchecked(bs, a, b)),
                        ("NS", "new_from_internals") => Obj::NS(FuzzyHash::new_from_internals_unchecked(bs, a, b)),
                        ("NL", "new_from_internals") => Obj::NL(LongFuzzyHash::new_from_internals_unchecked(bs, a, b)),
                        ("DS", "new_from_internals") => Obj::DS(DualFuzzyHash::new_from_internals_unchecked(bs, a, b)),
                        ("DL", "new_from_internals") => Obj::DL(LongDualFuzzyHash::new_from_internals_unchecked(bs, a, b)),
                        ("RS", "new_from_internals_near_raw") => Obj::RS(RawFuzzyHash::new_from_internals_near_raw_unchecked(log, a, b)),
                        ("RL", "new_from_internals_near_raw") => Obj::RL(LongRawFuzzyHash::new_from_internals_near_raw_unchecked(log, a, b)),
                        ("NS", "new_from_internals_near_raw") => Obj::NS(FuzzyHash::new_from_internals_near_raw_unchecked(log, a, b)),
                        ("NL", "new_from_internals_near_raw") => Obj::NL(LongFuzzyHash::new_from_internals_near_raw_unchecked(log, a, b)),
                        ("DS", "new_from_internals_near_raw") => Obj::DS(DualFuzzyHash::new_from_internals_near_raw_unchecked(log, a, b)),
                        ("DL", "new_from_internals_near_raw") => Obj::DL(LongDualFuzzyHash::new_from_internals_near_raw_unchecked(log, a, b)),
                        _ => return None,
                    })
                }
            }));
            match u {
                Ok(Some(o)) => {
                    let s = o.observe();
                    format!("{},\"present\":true}}", &s[..s.len() - 1])
                }
                Ok(None) => "{\"present\":false}".to_string(),
                Err(_) => "{\"present\":true,\"k\":0,\"a\":[],\"b\":[],\"valid\":false,\"fulleq\":false,\"dbg\":false,\"txt\":[],\"isn\":false}".to_string(),
            }
        }
        _ => "{\"present\":false}".to_string(),
    };
    #[cfg(not(feature = "unchecked"))]
    let uobs: String = "{\"present\":false}".to_string();
    let (res, obs) = match r {
        Ok(Some(o)) => ("ok", o.observe()),
        Ok(None) => return,
        Err(_) => ("panic", "{\"k\":0,\"a\":[],\"b\":[],\"valid\":false,\"fulleq\":false,\"dbg\":true,\"txt\":[],\"isn\":false}".to_string()),
    };
    sh.emit(&format!(
        "{{\"ev\":\"ctor\",\"T\":\"{}\",\"fn\":\"{}\",\"bs\":{},\"log\":{},\"a\":{},\"b\":{},\"l1\":{},\"l2\":{},\"res\":\"{}\",\"obs\":{},\"uobs\":{}}}",
        t, f, jw32(bs), log, jarr_u8(a), jarr_u8(b), l1, l2, res, obs, uobs
    ));
}
impl From<RawFuzzyHash> for Obj {
    fn from(o: RawFuzzyHash) -> Obj {
        Obj::RS(o)
    }
}
impl From<LongRawFuzzyHash> for Obj {
    fn from(o: LongRawFuzzyHash) -> Obj {
        Obj::RL(o)
    }
}
impl From<FuzzyHash> for Obj {
    fn from(o: FuzzyHash) -> Obj {
        Obj::NS(o)
    }
}
impl From<LongFuzzyHash> for Obj {
    fn from(o: LongFuzzyHash) -> Obj {
        Obj::NL(o)
    }
}
pub fn random_ctor(sh: &mut Shards, rng: &mut Rng) -> bool {
    let fns_plain = ["new_from_internals", "new_from_internals_near_raw", "new_from_internals_raw", "init_from_internals_raw"];
    let fns_dual = ["new_from_internals", "new_from_internals_near_raw"];
        let t = *rng.pick(&TYPES);
        let f = if t.starts_with('D') { *rng.pick(&fns_dual) } else { *rng.pick(&fns_plain) };
        let cap2 = if t.ends_with('L') { 64usize } else { 32 };
        let base = value_for(rng, t);
        let (mut bs, mut log, mut aa, mut bb) = (3u32 << base.k, base.k, base.a.clone(), base.b.clone());
        let (mut l1, mut l2) = (aa.len() as u8, bb.len() as u8);
        // violate exactly one clause (or none)
        let clause = rng.below(12);
        match clause {
            0 => {
                bs = *rng.pick(&[0u32, 1, 2, 4, 5, 7, 9, 3221225473, 4294967295, 6442450944u64 as u32, 100]);
                log = *rng.pick(&[31u8, 32, 64, 255]);
            }
            1 => {
                // block hash 1 too long
                let extra = rng.range(1, 16);
                let c = if t.starts_with('N') { 200 } else { 0 };
                for i in 0..(65 + extra - aa.len().min(64)) {
                    aa.push(((i * 5 + 1) % 60 + c % 1) as u8);
                }
                l1 = aa.len().min(255) as u8;
            }
            2 => {
                let extra = rng.range(1, 16);
                while bb.len() < cap2 + extra {
                    bb.push(((bb.len() * 7 + 2) % 61) as u8);
                }
                l2 = bb.len().min(255) as u8;
            }
            3 if !aa.is_empty() => {
                // symbol out of range at some position class (first / middle / last)
                let i = *rng.pick(&[0usize, aa.len() / 2, aa.len() - 1]);
                aa[i] = *rng.pick(&[64u8, 65, 127, 128, 255]);
            }
            4 if !bb.is_empty() => {
                let i = *rng.pick(&[0usize, bb.len() / 2, bb.len() - 1]);
                bb[i] = *rng.pick(&[64u8, 65, 127, 128, 255]);
            }
            5 if t.starts_with('N') => {
                // a run of 4 in a normalised type
                let i = rng.range(0, aa.len());
                let c = rng.below(64) as u8;
                for _ in 0..4 {
                    if aa.len() < 64 {
                        aa.insert(i, c);
                    }
                }
                l1 = aa.len() as u8;
            }
            6 if t.starts_with('N') => {
                let i = rng.range(0, bb.len());
                let c = rng.below(64) as u8;
                for _ in 0..4 {
                    if bb.len() < cap2 {
                        bb.insert(i, c);
                    }
                }
                l2 = bb.len() as u8;
            }
            7 if f.ends_with("_raw") && !f.contains("near") && aa.len() < 64 => {
                // non-zero tail (only expressible in the array forms): l1 stays, array longer
                let keep = aa.len();
                aa.push(*rng.pick(&[1u8, 63, 64, 255]));
                l1 = keep as u8;
            }
            8 if f.ends_with("_raw") && !f.contains("near") && bb.len() < cap2 => {
                let keep = bb.len();
                bb.push(*rng.pick(&[1u8, 63, 64, 255]));
                l2 = keep as u8;
            }
            9 if f.ends_with("_raw") && !f.contains("near") => {
                // length field beyond the capacity
                l1 = *rng.pick(&[65u8, 66, 128, 255]);
            }
            _ => {}
        }
        ev_ctor(sh, t, f, bs, log, &aa, &bb, l1, l2);
        clause <= 9
}
pub fn drive_ctor(a: &Args, thorough: bool) {
    let mut sh = Shards::new(&a.out, "obj_ctor", a.shards);
    let mut rng = Rng::new(a.seed ^ 0xeeee);
    let mut n = 0u64;
    let mut violating = 0u64;
    for _ in 0..(if thorough { 1000000 } else { 6000 }) {
        if n % 50 == 0 {
            sh.next_unit();
        }
        if random_ctor(&mut sh, &mut rng) {
            violating += 1;
        }
        n += 1;

    }
    // the position array's initialiser (the comparison side's constructor): lengths from far beyond
    // the contract (every power of two a narrowed length could wrap at, +0..64), and symbols outside
    // the alphabet at the first / middle / last position; the array is a REUSED one
    #[allow(deprecated)]
    {
        use ssdeep::internal_comparison::{BlockHashPositionArray, BlockHashPositionArrayData};
        let mut lens: Vec<usize> = vec![0, 1, 7, 63, 64, 65, 66, 100, 127, 128, 129, 192, 255];
        for p in [256usize, 512, 1024, 65536, 131072] {
            lens.extend_from_slice(&[p, p + 1, p + 32, p + 63, p + 64, p + 65]);
        }
        for (i, &ln) in lens.iter().enumerate() {
            if i % 8 == 0 {
                sh.next_unit();
            }
            for bad in [None, Some((0usize, 64u8)), Some((ln / 2, 128)), Some((ln.saturating_sub(1), 255))] {
                if bad.is_some() && ln == 0 {
                    continue;
                }
                let mut v: Vec<u8> = (0..ln).map(|j| ((j * 11 + i) % 64) as u8).collect();
                if let Some((at, sym)) = bad {
                    v[at] = sym;
                }
                let mut pa = BlockHashPositionArray::new();
                pa.init_from(&[5, 6, 7, 8, 9, 10, 11, 12, 13]);
                let r = catch_unwind(AssertUnwindSafe(|| pa.init_from(&v)));
                let valid = catch_unwind(AssertUnwindSafe(|| pa.is_valid())).unwrap_or(false);
                sh.emit(&format!(
                    "{{\"ev\":\"pctor\",\"len\":{},\"bad_at\":{},\"res\":\"{}\",\"valid\":{},\"len_after\":{}}}",
                    ln, bad.map(|b| b.0 as i64).unwrap_or(-1), if r.is_ok() { "ok" } else { "panic" }, valid, pa.len()
                ));
                n += 1;
            }
        }
    }
    println!("STATS {{\"ctor\":{{\"calls\":{},\"aimed_at_a_contract_clause\":{}}}}}", n, violating);
    sh.finish();
}


// ------------------------------------------------------------------ replay
fn v_bh(v: &serde_json::Value) -> Vec<u8> {
    v.as_array().map(|a| a.iter().map(|x| x.as_u64().unwrap_or(0) as u8).collect()).unwrap_or_default()
}
fn v_hash(v: &serde_json::Value) -> H {
    H { k: v["k"].as_u64().unwrap_or(0) as u8, a: v_bh(&v["a"]), b: v_bh(&v["b"]) }
}
/// Re-execute recorded object events (inputs only are read).
pub fn replay(inp: &str, out_dir: &str) {
    let mut sh = Shards::new(out_dir, "replay", 1);
    let text = std::fs::read_to_string(inp).unwrap();
    let mut st = Store::new();
    for line in text.lines().filter(|l| !l.trim().is_empty()) {
        let e: serde_json::Value = serde_json::from_str(line).unwrap();
        match e["ev"].as_str().unwrap_or("") {
            "hnew" => {
                st = Store::new();
                sh.emit("{\"ev\":\"hnew\"}");
            }
            "op" => {
                let dst = e["dst"].as_u64().unwrap_or(0) as usize;
                let src = e["src"].as_u64().unwrap_or(0) as usize;
                match e["op"].as_str().unwrap_or("") {
                    "set" => do_set(&mut sh, &mut st, dst, &v_hash(&e["h"])),
                    "parse" => do_parse(&mut sh, &mut st, dst, &v_bh(&e["t"])),
                    "gen" => do_gen(&mut sh, &mut st, dst, &v_bh(&e["d"])),
                    op => do_op(&mut sh, &mut st, op, src, dst),
                }
            }
            "ctor" => {
                let bs = ((e["bs"][0].as_u64().unwrap_or(0) as u32) << 16) | (e["bs"][1].as_u64().unwrap_or(0) as u32);
                ev_ctor(&mut sh, e["T"].as_str().unwrap_or("RS"), e["fn"].as_str().unwrap_or(""), bs, e["log"].as_u64().unwrap_or(0) as u8,
                        &v_bh(&e["a"]), &v_bh(&e["b"]), e["l1"].as_u64().unwrap_or(0) as u8, e["l2"].as_u64().unwrap_or(0) as u8);
            }
            "parse" => crate::obj::ev_parse(&mut sh, &v_bh(&e["t"])),
            "fmt" => crate::obj::ev_fmt(&mut sh, &v_hash(&e["h"]), true),
            "norm" => crate::obj::ev_norm(&mut sh, &v_hash(&e["h"])),
            "dual" => crate::obj::ev_dual(&mut sh, &v_hash(&e["h"]), &H { k: 7, a: vec![9u8; 64], b: vec![2u8; 64] }),
            "dualord" => {
                let fam: Vec<H> = e["fam"].as_array().map(|a| a.iter().map(v_hash).collect()).unwrap_or_default();
                crate::obj::ev_dualord(&mut sh, &fam);
            }
            "sort" => {
                // re-sort the recorded input
                let inp: Vec<H> = e["in"].as_array().map(|a| a.iter().map(v_hash).collect()).unwrap_or_default();
                let mut objs: Vec<LongRawFuzzyHash> = inp.iter().map(|h| LongRawFuzzyHash::new_from_internals_near_raw(h.k, &h.a, &h.b)).collect();
                let j = |o: &LongRawFuzzyHash| H { k: o.log_block_size(), a: o.block_hash_1().to_vec(), b: o.block_hash_2().to_vec() }.j_pub();
                let inj: Vec<String> = objs.iter().map(j).collect();
                objs.sort();
                let outj: Vec<String> = objs.iter().map(j).collect();
                sh.emit(&format!("{{\"ev\":\"sort\",\"T\":\"RL\",\"in\":[{}],\"out\":[{}]}}", inj.join(","), outj.join(",")));
            }
            "ord" => {
                let which = match e["T"].as_str().unwrap_or("RL") {
                    "RL" => 0,
                    "NL" => 1,
                    "RS" => 2,
                    _ => 3,
                };
                crate::obj::ev_ord(&mut sh, &v_hash(&e["A"]), &v_hash(&e["B"]), which);
            }
            _ => {}
        }
    }
    sh.finish();
}
