//! Generator drivers (C01, C03, C12, C13): build inputs and call histories, run them on
//! real `Generator` objects and record every call with everything it returned.
use crate::util::*;
use crate::words::Words;
use ssdeep::{Generator, GeneratorError};
use std::panic::{catch_unwind, AssertUnwindSafe};

fn gerr(e: GeneratorError) -> &'static str {
    match e {
        GeneratorError::FixedSizeMismatch => "Mismatch",
        GeneratorError::FixedSizeTooLarge => "FixedTooLarge",
        GeneratorError::InputSizeTooLarge => "TooLarge",
        GeneratorError::OutputOverflow => "Overflow",
        _ => "Unknown",
    }
}
fn res_json<const S1: usize, const S2: usize>(
    r: std::thread::Result<Result<ssdeep::FuzzyHashData<S1, S2, false>, GeneratorError>>,
) -> String
where
    ssdeep::constraints::BlockHashSize<S1>: ssdeep::constraints::ConstrainedBlockHashSize,
    ssdeep::constraints::BlockHashSize<S2>: ssdeep::constraints::ConstrainedBlockHashSize,
    ssdeep::constraints::BlockHashSizes<S1, S2>: ssdeep::constraints::ConstrainedBlockHashSizes,
{
    match r {
        Err(_) => "{\"e\":\"panic\"}".to_string(),
        Ok(Err(e)) => format!("{{\"e\":\"{}\"}}", gerr(e)),
        Ok(Ok(h)) => format!(
            "{{\"e\":\"none\",\"k\":{},\"a\":{},\"b\":{},\"v\":{}}}",
            h.log_block_size(),
            jarr_u8(h.block_hash_1()),
            jarr_u8(h.block_hash_2()),
            h.is_valid()
        ),
    }
}
pub fn fin_fields(g: &Generator) -> String {
    let t = catch_unwind(AssertUnwindSafe(|| g.finalize()));
    let n = catch_unwind(AssertUnwindSafe(|| g.finalize_without_truncation()));
    let s = catch_unwind(AssertUnwindSafe(|| g.finalize_raw::<false, 64, 32>()));
    let u = catch_unwind(AssertUnwindSafe(|| g.finalize_raw::<true, 64, 64>()));
    let txt = match &t {
        Ok(Ok(h)) => {
            let mut buf = [0u8; ssdeep::MAX_LEN_IN_STR];
            let len = h.store_into_bytes(&mut buf).unwrap();
            jarr_u8(&buf[..len])
        }
        _ => "[]".to_string(),
    };
    // progress of the engine through the guarded probe (compared with the implementation-shaped
    // model L2 in lock-step mode; never part of a verdict)
    let (st, en, lim, isl, idx) = g.verif_probe();
    format!(
        "\"t\":{},\"n\":{},\"s\":{},\"u\":{},\"sz\":{},\"warn\":{},\"txt\":{},\"probe\":{{\"st\":{},\"en\":{},\"lim\":{},\"isl\":{},\"idx\":{}}}",
        res_json(t),
        res_json(n),
        res_json(s),
        res_json(u),
        jsize(g.input_size()),
        g.may_warn_about_small_input_size(),
        txt,
        st, en, lim, isl, jarr_u8(&idx)
    )
}

/// Recorder around a set of live generators.
pub struct GenRec<'a> {
    pub sh: &'a mut Shards,
    pub gens: Vec<Option<Generator>>,
    pub fed: Vec<Vec<u8>>, // bytes fed since `new`/`reset` (for hash_buf / hash_stream events)
    pub fin_every_call: bool,
    unit_open: bool,
    unit_elim: bool,
    unit_last: bool,
    pub stats_units: u64,
    pub stats_elim: u64,
    pub stats_last: u64,
}
impl<'a> GenRec<'a> {
    pub fn new(sh: &'a mut Shards) -> Self {
        GenRec { sh, gens: vec![], fed: vec![], fin_every_call: true, unit_open: false, unit_elim: false, unit_last: false, stats_units: 0, stats_elim: 0, stats_last: 0 }
    }
    pub fn slot(&mut self, g: usize) {
        while self.gens.len() <= g {
            self.gens.push(None);
            self.fed.push(vec![]);
        }
    }
    fn note_progress(&mut self, g: usize) {
        let (st, _en, _lim, last, _) = self.gens[g].as_ref().unwrap().verif_probe();
        if st > 0 {
            self.unit_elim = true;
        }
        if last {
            self.unit_last = true;
        }
    }
    pub fn close_unit(&mut self) {
        if self.unit_open {
            self.stats_units += 1;
            if self.unit_elim {
                self.stats_elim += 1;
            }
            if self.unit_last {
                self.stats_last += 1;
            }
        }
        self.unit_open = false;
    }
    pub fn stats(&mut self) -> String {
        self.close_unit();
        format!("\"units\":{},\"units_with_elimination\":{},\"units_with_last_hash\":{}", self.stats_units, self.stats_elim, self.stats_last)
    }
    pub fn begin(&mut self) {
        self.close_unit();
        self.unit_open = true;
        self.unit_elim = false;
        self.unit_last = false;
        self.sh.next_unit();
        self.gens.clear();
        self.fed.clear();
    }
    pub fn new_gen(&mut self, g: usize) {
        self.slot(g);
        // both ways of making one (new / Default), alternating
        self.gens[g] = Some(if self.sh.units % 2 == 0 { Generator::new() } else { Generator::default() });
        self.fed[g].clear();
        self.sh.emit(&format!("{{\"ev\":\"new\",\"g\":{}}}", g));
    }
    pub fn zeros(&mut self, g: usize, n: u64) {
        self.slot(g);
        self.gens[g] = Some(Generator::verif_with_prefix_zeroes(n));
        self.fed[g].clear();
        self.sh.emit(&format!("{{\"ev\":\"zeros\",\"g\":{},\"n\":{}}}", g, jsize(n)));
    }
    pub fn clone_gen(&mut self, g: usize, to: usize) {
        self.slot(to);
        // Clone::clone() into a new object, or Clone::clone_from() into the (used) generator already
        // sitting in the destination slot: the result must be the same
        if to != g && self.gens[to].is_some() {
            let src = self.gens[g].as_ref().unwrap().clone();
            self.gens[to].as_mut().unwrap().clone_from(&src);
        } else {
            let c = self.gens[g].as_ref().unwrap().clone();
            self.gens[to] = Some(c);
        }
        self.fed[to] = self.fed[g].clone();
        self.sh.emit(&format!("{{\"ev\":\"clone\",\"g\":{},\"to\":{}}}", g, to));
    }
    pub fn reset(&mut self, g: usize) {
        self.gens[g].as_mut().unwrap().reset();
        self.fed[g].clear();
        self.sh.emit(&format!("{{\"ev\":\"reset\",\"g\":{}}}", g));
    }
    /// form: 0 update(&[u8]), 1 update_by_iter, 2 update_by_byte (one call per byte),
    /// 3 += &[u8], 4 += &[u8; N] (N in a fixed menu, else falls back to 3), 5 += u8
    pub fn update(&mut self, g: usize, form: u8, data: &[u8]) {
        let gen = self.gens[g].as_mut().unwrap();
        let r = catch_unwind(AssertUnwindSafe(|| match form {
            0 => {
                gen.update(data);
            }
            1 => {
                // the iterator form takes ANY iterator: rotate through exact and inexact size hints
                // (all legal: lower <= actual <= upper)
                struct Hinted<'x> {
                    it: std::slice::Iter<'x, u8>,
                    lo: usize,
                    hi: Option<usize>,
                }
                impl<'x> Iterator for Hinted<'x> {
                    type Item = u8;
                    fn next(&mut self) -> Option<u8> {
                        self.it.next().copied()
                    }
                    fn size_hint(&self) -> (usize, Option<usize>) {
                        (self.lo.min(self.it.len()), self.hi.map(|h| h.max(self.it.len())))
                    }
                }
                let n = data.len();
                match (n + data.first().copied().unwrap_or(0) as usize) % 6 {
                    0 => gen.update_by_iter(data.iter().copied()),
                    1 => gen.update_by_iter(data.iter().copied().filter(|_| true)),           // (0, Some(n))
                    2 => gen.update_by_iter(Hinted { it: data.iter(), lo: 0, hi: None }),       // (0, None)
                    3 => gen.update_by_iter(Hinted { it: data.iter(), lo: 0, hi: Some(n + 1000) }),
                    4 => gen.update_by_iter(Hinted { it: data.iter(), lo: n / 2, hi: Some(usize::MAX) }),
                    _ => gen.update_by_iter(Hinted { it: data.iter(), lo: n, hi: Some((n as u64 * 3 + (1 << 33)) as usize) }),
                };
            }
            2 => {
                for &b in data {
                    gen.update_by_byte(b);
                }
            }
            3 => {
                *gen += data;
            }
            4 => match data.len() {
                1 => *gen += <&[u8; 1]>::try_from(data).unwrap(),
                2 => *gen += <&[u8; 2]>::try_from(data).unwrap(),
                3 => *gen += <&[u8; 3]>::try_from(data).unwrap(),
                6 => *gen += <&[u8; 6]>::try_from(data).unwrap(),
                7 => *gen += <&[u8; 7]>::try_from(data).unwrap(),
                8 => *gen += <&[u8; 8]>::try_from(data).unwrap(),
                13 => *gen += <&[u8; 13]>::try_from(data).unwrap(),
                64 => *gen += <&[u8; 64]>::try_from(data).unwrap(),
                _ => *gen += data,
            },
            _ => {
                for &b in data {
                    *gen += b;
                }
            }
        }));
        self.fed[g].extend_from_slice(data);
        if r.is_err() {
            self.sh.emit(&format!("{{\"ev\":\"panic\",\"in\":\"upd\",\"g\":{},\"f\":{}}}", g, form));
            return;
        }
        self.sh.emit_w(
            &format!("{{\"ev\":\"upd\",\"g\":{},\"f\":{},\"d\":{}}}", g, form, jarr_u8(data)),
            data.len() as u64 + 1,
        );
        if self.fin_every_call {
            self.fin(g);
        }
    }
    pub fn fin(&mut self, g: usize) {
        self.note_progress(g);
        let f = fin_fields(self.gens[g].as_ref().unwrap());
        self.sh.emit_w(&format!("{{\"ev\":\"fin\",\"g\":{},{}}}", g, f), 8);
    }
    pub fn set_fixed(&mut self, g: usize, n: u64, via_usize: bool) {
        let gen = self.gens[g].as_mut().unwrap();
        let r = catch_unwind(AssertUnwindSafe(|| {
            if via_usize {
                gen.set_fixed_input_size_in_usize(n as usize)
            } else {
                gen.set_fixed_input_size(n)
            }
        }));
        let rs = match r {
            Err(_) => "panic",
            Ok(Ok(())) => "Ok",
            Ok(Err(GeneratorError::FixedSizeTooLarge)) => "TooLarge",
            Ok(Err(GeneratorError::FixedSizeMismatch)) => "Mismatch",
            Ok(Err(_)) => "Other",
        };
        self.sh.emit(&format!("{{\"ev\":\"fix\",\"g\":{},\"n\":{},\"r\":\"{}\",\"usz\":{}}}", g, jsize(n), rs, via_usize));
        if self.fin_every_call {
            self.fin(g);
        }
    }
    /// hash_buf / hash_stream over the bytes fed to g since new/reset (the generator itself
    /// is not touched; the spec takes the payload from its own state of g).
    #[cfg(not(feature = "easy-functions"))]
    pub fn hash_buf(&mut self, _g: usize) {}
    #[cfg(not(all(feature = "easy-functions", feature = "std")))]
    pub fn hash_stream(&mut self, _g: usize, _rng: &mut Rng, _maxread: usize) {}
    #[cfg(not(all(feature = "easy-functions", feature = "std")))]
    pub fn hash_stream_seeded(&mut self, _g: usize, _rs: u64, _maxread: usize) {}
    #[cfg(feature = "easy-functions")]
    pub fn hash_buf(&mut self, g: usize) {
        let data = self.fed[g].clone();
        let r = catch_unwind(|| ssdeep::hash_buf(&data));
        self.sh.emit_w(&format!("{{\"ev\":\"hashbuf\",\"g\":{},\"r\":{}}}", g, res_json(r)), 4);
    }
    #[cfg(all(feature = "easy-functions", feature = "std"))]
    pub fn hash_stream(&mut self, g: usize, rng: &mut Rng, maxread: usize) {
        let rs = rng.next() >> 34;
        self.hash_stream_seeded(g, rs, maxread)
    }
    #[cfg(all(feature = "easy-functions", feature = "std"))]
    pub fn hash_stream_seeded(&mut self, g: usize, rs: u64, maxread: usize) {
        struct Chunky<'b> {
            data: &'b [u8],
            pos: usize,
            rng: Rng,
            maxread: usize,
            reads: u64,
        }
        impl<'b> std::io::Read for Chunky<'b> {
            fn read(&mut self, buf: &mut [u8]) -> std::io::Result<usize> {
                self.reads += 1;
                let left = self.data.len() - self.pos;
                if left == 0 || buf.is_empty() {
                    return Ok(0);
                }
                let k = self.rng.range(1, self.maxread).min(left).min(buf.len());
                buf[..k].copy_from_slice(&self.data[self.pos..self.pos + k]);
                self.pos += k;
                Ok(k)
            }
        }
        let data = self.fed[g].clone();
        let mut rd = Chunky { data: &data, pos: 0, rng: Rng::new(rs), maxread, reads: 0 };
        let r = catch_unwind(AssertUnwindSafe(|| ssdeep::hash_stream(&mut rd)));
        let rj = match r {
            Err(_) => "{\"e\":\"panic\"}".to_string(),
            Ok(Err(ssdeep::GeneratorOrIOError::GeneratorError(e))) => format!("{{\"e\":\"{}\"}}", gerr(e)),
            Ok(Err(ssdeep::GeneratorOrIOError::IOError(_))) => "{\"e\":\"io\"}".to_string(),
            Ok(Ok(h)) => res_json::<64, 32>(Ok(Ok(h))),
        };
        self.sh.emit_w(&format!("{{\"ev\":\"hashstream\",\"g\":{},\"r\":{},\"reads\":{},\"mr\":{},\"rs\":{}}}", g, rj, rd.reads, maxread, rs), 4);
    }
}

// ------------------------------------------------------------------ input classes
fn pw<'a>(rng: &mut Rng, ws: &'a Vec<[u8; 7]>) -> &'a [u8] {
    &ws[rng.below(ws.len() as u64) as usize][..]
}
pub fn words_seq(rng: &mut Rng, w: &Words, spec: &[(i32, usize)], out: &mut Vec<u8>) {
    // spec: (level, count); level -1 = non-trigger word, -2 = maxroll, -3 = zeroroll
    for &(lv, cnt) in spec {
        for _ in 0..cnt {
            let word = match lv {
                -1 => pw(rng, &w.none),
                -2 => pw(rng, &w.maxroll),
                -3 => pw(rng, &w.zeroroll),
                k => pw(rng, &w.levels[k as usize]),
            };
            out.extend_from_slice(word);
        }
    }
}
pub fn make_input(rng: &mut Rng, w: &Words, class: u64, len: usize) -> Vec<u8> {
    let mut v = Vec::with_capacity(len + 16);
    match class {
        0 => {
            for _ in 0..len {
                v.push(rng.next() as u8);
            }
        }
        1 => {
            let k = rng.range(2, 4);
            let alpha: Vec<u8> = (0..k).map(|_| rng.next() as u8).collect();
            for _ in 0..len {
                v.push(*rng.pick(&alpha));
            }
        }
        2 => {
            let p = rng.range(1, 60);
            let base: Vec<u8> = (0..p).map(|_| rng.next() as u8).collect();
            for i in 0..len {
                v.push(base[i % p]);
            }
        }
        3 => {
            for _ in 0..len {
                v.push(if rng.chance(1, 12) { rng.next() as u8 } else { 0 });
            }
        }
        4 => {
            // adversarial: trigger words of random (mostly low) levels mixed with fillers
            let top = rng.range(0, 12) as i32;
            while v.len() + 7 <= len {
                let r = rng.below(10);
                if r < 6 {
                    let lv = rng.range(0, top as usize) as i32;
                    v.extend_from_slice(pw(rng, &w.levels[lv as usize]));
                } else if r < 8 {
                    v.extend_from_slice(pw(rng, &w.none));
                } else if r < 9 {
                    let k = rng.range(1, 6);
                    for _ in 0..k {
                        v.push(rng.next() as u8);
                    }
                } else {
                    v.extend_from_slice(if rng.chance(1, 2) { pw(rng, &w.maxroll) } else { pw(rng, &w.zeroroll) });
                    // an extreme window followed by zero bytes
                    for _ in 0..rng.range(0, 3) {
                        v.push(0);
                    }
                }
            }
            while v.len() < len {
                v.push(0);
            }
            v.truncate(len);
        }
        6 => {
            // piece-count corners: level k gets 62..66 pieces of which 30..33 are also level k+1
            // (the "64th piece" and "32 pieces in the next block hash" borders on both sides),
            // optionally preceded by filler that pushes the size over the elimination border
            let k = rng.range(0, 9);
            let total = rng.range(62, 66);
            let upper = rng.range(30, 33);
            let pre = if rng.chance(1, 2) { rng.range(0, 200 << k.min(4)) } else { 0 };
            for _ in 0..pre {
                v.push(0);
            }
            let mut kinds: Vec<usize> = vec![];
            for i in 0..total {
                kinds.push(if i < upper { k + 1 } else { k });
            }
            // order: upper-level words first / last / interleaved
            match rng.below(3) {
                0 => {}
                1 => kinds.reverse(),
                _ => {
                    for i in (1..kinds.len()).rev() {
                        let j = rng.range(0, i);
                        kinds.swap(i, j);
                    }
                }
            }
            for lv in kinds {
                v.extend_from_slice(pw(rng, &w.levels[lv]));
            }
            for _ in 0..rng.range(0, 2) {
                v.extend_from_slice(pw(rng, &w.none));
            }
            return v;
        }
        _ => {
            // many pieces at one level: fill contexts quickly (64th-piece corner)
            let lv = rng.range(0, 8);
            while v.len() + 7 <= len {
                if rng.chance(9, 10) {
                    v.extend_from_slice(pw(rng, &w.levels[lv]));
                } else {
                    let l2 = rng.range(0, lv + 2);
                    v.extend_from_slice(pw(rng, &w.levels[l2]));
                }
            }
            while v.len() < len {
                v.push(rng.next() as u8);
            }
        }
    }
    // end-of-input corner: sometimes end with a zero window / maxroll / trigger word
    match rng.below(12) {
        0 if v.len() >= 7 => {
            let n = v.len();
            for b in &mut v[n - 7..] {
                *b = 0;
            }
        }
        1 if v.len() >= 7 => {
            let n = v.len();
            v[n - 7..].copy_from_slice(pw(rng, &w.maxroll));
        }
        2 if v.len() >= 7 => {
            let n = v.len();
            v[n - 7..].copy_from_slice(pw(rng, &w.zeroroll));
        }
        3 if v.len() >= 7 => {
            let n = v.len();
            let lv = rng.range(0, 6);
            v[n - 7..].copy_from_slice(pw(rng, &w.levels[lv]));
        }
        _ => {}
    }
    v
}
fn pick_len(rng: &mut Rng, cap: usize) -> usize {
    match rng.below(10) {
        0 => rng.range(0, 20),
        1..=3 => {
            // on / around a block size border 192 * 2^n
            let mut n = 0;
            while 192usize << (n + 1) <= cap && rng.chance(2, 3) {
                n += 1;
            }
            let b = 192usize << n;
            (b + rng.range(0, 4)).saturating_sub(2).min(cap)
        }
        4..=6 => rng.range(0, cap.min(2000)),
        _ => rng.range(0, cap),
    }
}

/// `total` pieces at level k of which `upper` are also level k+1; order 0: upper first,
/// 1: upper last, 2: evenly interleaved.
pub fn corner_seq(rng: &mut Rng, w: &Words, k: usize, total: usize, upper: usize, order: u8) -> Vec<u8> {
    let hi = (k + 1).min(30);
    let mut kinds: Vec<usize> = (0..total).map(|i| if i < upper { hi } else { k }).collect();
    match order {
        0 => {}
        1 => kinds.reverse(),
        _ => {
            let mut out = vec![];
            let (mut a, mut b) = (0usize, 0usize);
            for i in 0..total {
                if (i * upper) / total != ((i + 1) * upper) / total && a < upper {
                    out.push(hi);
                    a += 1;
                } else if b < total - upper {
                    out.push(k);
                    b += 1;
                } else {
                    out.push(hi);
                    a += 1;
                }
            }
            kinds = out;
        }
    }
    let mut v = vec![];
    for lv in kinds {
        v.extend_from_slice(pw(rng, &w.levels[lv]));
    }
    v
}

/// one trigger word of every level, low to high and back
pub fn level_sweep(rng: &mut Rng, w: &Words) -> Vec<u8> {
    let mut sweep = vec![];
    for lv in (0..=30usize).chain((0..=30usize).rev()) {
        sweep.extend_from_slice(pw(rng, &w.levels[lv]));
    }
    sweep
}
/// C01: the piece-count corner grid at EVERY block size index (generator positioned by the
/// guarded zero-prefix hook so that the size is over the elimination border of index k).
pub fn drive_corner_grid(rec: &mut GenRec, rng: &mut Rng, w: &Words, thorough: bool) {
    let totals: &[usize] = if thorough { &[62, 63, 64, 65, 66] } else { &[63, 64, 65] };
    let uppers: &[usize] = if thorough { &[30, 31, 32, 33] } else { &[31, 32] };
    let orders: &[u8] = if thorough { &[0, 1, 2] } else { &[0, 1] };
    for k in 0..=30usize {
        for &total in totals {
            for &upper in uppers {
                for &order in orders {
                    let seq = corner_seq(rng, w, k, total, upper, order);
                    // size just over / just at the border of index k when the sequence ends
                    let border = 192u64 << k;
                    let nz = match rng.below(3) {
                        0 => border.saturating_sub(seq.len() as u64),          // ends exactly on the border
                        1 => border.saturating_sub(seq.len() as u64) + 1,      // one over at the end
                        _ => border + rng.below(64),                            // over from the start
                    };
                    rec.begin();
                    rec.zeros(0, nz);
                    rec.update(0, 0, &seq);
                    rec.fin(0);
                    // a tail after the corner: non-trigger word, zero window, or max-roll word
                    let tail: Vec<u8> = match rng.below(4) {
                        0 => pw(rng, &w.none).to_vec(),
                        1 => vec![0u8; 7],
                        2 => pw(rng, &w.maxroll).to_vec(),
                        _ => pw(rng, &w.levels[k.min(30)]).to_vec(),
                    };
                    rec.update(0, 0, &tail);
                    rec.fin(0);
                    // once per index: one word of EVERY level, low to high and back.  The lower bound
                    // has advanced by now, so the words below it must be ignored (each tests one bit
                    // of the rolling-hash mask) and the words at or above it must still count.
                    if total == totals[0] && upper == uppers[0] && order == orders[0] {
                        let sweep = level_sweep(rng, w);
                        rec.update(0, 1, &sweep);
                        rec.fin(0);
                    }
                }
            }
        }
    }
}

/// The repository's own vectors (574 lines over 237 files, produced by libfuzzy itself): the FILE
/// CONTENTS and the EXPECTED TEXT are recorded; the specification (not the code) is then checked
/// against them - an anchor for the transcription of ssdeep into TLA+.
pub fn drive_anchor(a: &Args) {
    let mut sh = Shards::new(&a.out, "gen_anchor", a.shards);
    let base = "/repo/ffuzzy/";
    let index = std::fs::read_to_string(format!("{}data/testsuite/generate-small.ssdeep.txt", base)).unwrap_or_default();
    let mut n = 0u64;
    for line in index.lines() {
        if line.is_empty() || line.starts_with('#') {
            continue;
        }
        let tok: Vec<&str> = line.split_whitespace().collect();
        if tok.len() != 3 {
            continue;
        }
        let data = match std::fs::read(format!("{}{}", base, tok[0])) {
            Ok(d) => d,
            Err(_) => continue,
        };
        let flags: u64 = tok[1].parse().unwrap_or(0);
        sh.next_unit();
        sh.emit("{\"ev\":\"new\",\"g\":0}");
        sh.emit_w(&format!("{{\"ev\":\"upd\",\"g\":0,\"f\":0,\"d\":{}}}", jarr_u8(&data)), data.len() as u64 + 1);
        sh.emit(&format!("{{\"ev\":\"anchor\",\"g\":0,\"flags\":{},\"want\":{},\"file\":{}}}", flags, jarr_u8(tok[2].as_bytes()), jstr(tok[0])));
        n += 1;
    }
    println!("STATS {{\"anchor\":{{\"vectors\":{}}}}}", n);
    sh.finish();
}

/// C01: inputs, one slice each, all finalisers + hash_buf.
pub fn drive_inputs(a: &Args, w: &Words, budget_bytes: usize, maxlen: usize) {
    let mut sh = Shards::new(&a.out, "gen_inputs", a.shards);
    let mut rng = Rng::new(a.seed);
    let mut rec = GenRec::new(&mut sh);
    rec.fin_every_call = false;
    drive_corner_grid(&mut rec, &mut rng, w, a.tier == "thorough");
    // dense inputs sized exactly on / one / two over every small block size border, through the
    // one-shot routes that DECLARE the size (hash_buf; set_fixed + update): every block size that can
    // be chosen has plenty of pieces, so block hash 2 must come from the next index up
    for k in 0..=(if a.tier == "thorough" { 8usize } else { 6 }) {
        for over in 0..=2usize {
            let size = (192usize << k) + over;
            let mut data: Vec<u8> = vec![];
            let lv = (k + 2 + (over % 2)).min(30);
            while data.len() + 7 <= size {
                data.extend_from_slice(pw(&mut rng, &w.levels[lv]));
            }
            while data.len() < size {
                data.insert(0, 0);
            }
            rec.begin();
            rec.new_gen(0);
            rec.set_fixed(0, size as u64, over == 1);
            rec.update(0, 0, &data);
            rec.fin(0);
            rec.hash_buf(0);
            rec.new_gen(1);
            rec.update(1, 1, &data);
            rec.set_fixed(1, size as u64, false);
            rec.fin(1);
        }
    }
    // the same object used for one input after another (as a caller hashing many files does):
    // a dense input that fills several block sizes, reset(), then a sparse input that is large but
    // ends almost no pieces -- the block size guess then walks over contexts the sparse input never
    // started, which still hold the dense input's pieces
    for i in 0..(if a.tier == "thorough" { 8usize } else { 3 }) {
        rec.begin();
        rec.new_gen(0);
        let dense = make_input(&mut rng, w, 0, 20_000 + 9_000 * i);
        rec.update(0, (i % 3) as u8, &dense);
        rec.fin(0);
        rec.reset(0);
        let mut sparse = vec![0u8; 6_000 + 5_000 * i];
        if i % 2 == 1 {
            sparse.extend_from_slice(b"Hello, World!\n");
        }
        if i % 3 == 2 {
            let at = sparse.len() / 2;
            sparse[at] = 1;
        }
        rec.update(0, ((i + 1) % 3) as u8, &sparse);
        rec.fin(0);
    }
    // one input past 2^16 bytes (a 16-bit position, count or index in the engine would wrap here)
    {
        rec.begin();
        rec.new_gen(0);
        let data = make_input(&mut rng, w, 0, 65_536 + 4_500);
        rec.update(0, 0, &data);
        rec.fin(0);
        rec.hash_buf(0);
    }
    let mut used = 0usize;
    let mut first = true;
    while used < budget_bytes {
        let cap = if first { maxlen } else if rng.chance(1, 6) { maxlen } else { maxlen / 8 };
        let len = if first { maxlen } else { pick_len(&mut rng, cap) };
        first = false;
        let class = rng.below(9).min(7);
        let data = make_input(&mut rng, w, if class == 7 { 6 } else { class }, len);
        rec.begin();
        rec.new_gen(0);
        rec.fin(0);
        rec.update(0, 0, &data);
        rec.fin(0);
        rec.hash_buf(0);
        used += data.len() + 64;
    }
    let st = rec.stats();
    println!("STATS {{\"inputs\":{{{},\"bytes\":{}}}}}", st, used);
    sh.finish();
}

/// a fresh generator really fed `n` zero bytes: form 0 = slices of 1 MiB, 1 = ONE update_by_iter call,
/// 2 = single bytes, 3 = one iterator call per 2^31 bytes
pub fn real_zero_run(n: u64, form: u8) -> Generator {
    let mut g = Generator::new();
    match form {
        1 => {
            g.update_by_iter(std::iter::repeat(0u8).take(n as usize));
        }
        2 => {
            for _ in 0..n {
                g.update_by_byte(0);
            }
        }
        3 => {
            let mut left = n;
            while left > 0 {
                let k = left.min(1 << 31);
                g.update_by_iter(std::iter::repeat(0u8).take(k as usize));
                left -= k;
            }
        }
        _ => {
            let chunk = vec![0u8; 1 << 20];
            let mut left = n;
            while left > 0 {
                let k = left.min(chunk.len() as u64) as usize;
                g.update(&chunk[..k]);
                left -= k as u64;
            }
        }
    }
    g
}
fn random_cuts(rng: &mut Rng, len: usize, style: u64) -> Vec<usize> {
    // returns chunk lengths summing to len
    let mut v = vec![];
    let mut left = len;
    while left > 0 {
        let k = match style {
            0 => rng.range(1, 9),
            1 => rng.range(1, 64),
            2 => *rng.pick(&[1usize, 2, 3, 6, 7, 8, 13, 64]),
            3 => rng.range(1, left.max(1)),
            _ => {
                if rng.chance(1, 3) {
                    rng.range(1, 8)
                } else {
                    rng.range(1, 400)
                }
            }
        }
        .min(left);
        v.push(k);
        left -= k;
    }
    v
}

/// C03 + C12: call histories.
pub fn drive_histories(a: &Args, w: &Words, budget_bytes: usize, maxlen: usize, with_decl: bool) {
    let mut sh = Shards::new(&a.out, if with_decl { "gen_hist12" } else { "gen_hist3" }, a.shards);
    let mut rng = Rng::new(a.seed ^ 0x1111);
    let mut rec = GenRec::new(&mut sh);
    let mut used = 0usize;
    const MAXSZ: u64 = 192u64 << 30;
    while used < budget_bytes {
        rec.begin();
        rec.new_gen(0);
        let rounds = if with_decl && rng.chance(2, 3) { 2 } else { 1 };
        for round in 0..rounds {
            if round > 0 {
                // reset after a complete first history; second history must match a fresh generator
                rec.reset(0);
                rec.fin(0);
            }
            let len = pick_len(&mut rng, maxlen);
            let class = rng.below(8);
            let data = make_input(&mut rng, w, class, len);
            let style = rng.below(5);
            let cuts = random_cuts(&mut rng, data.len(), style);
            rec.fin_every_call = cuts.len() <= 60 || rng.chance(1, 4);
            // where to declare the size: never / before / middle / just before the end
            let decl = if with_decl { rng.below(8) } else { 0 };
            let decl_at = match decl {
                0 | 1 => usize::MAX,
                2 | 3 => 0,
                4 | 5 => rng.range(0, cuts.len()),
                _ => cuts.len(),
            };
            let wrong = rng.chance(1, 5);
            let mut pos = 0usize;
            let mut clone_live = false;
            let mut cloned_after_elim = false;
            for (ci, &k) in cuts.iter().enumerate() {
                if ci == decl_at {
                    declare(&mut rec, &mut rng, data.len() as u64, wrong, MAXSZ);
                }
                let form = rng.below(6) as u8;
                rec.update(0, form, &data[pos..pos + k]);
                if clone_live {
                    let form2 = rng.below(6) as u8;
                    rec.update(1, form2, &data[pos..pos + k]);
                }
                pos += k;
                // clone now and then; in particular soon after the engine has advanced its lower
                // bound (the guarded probe is only used to AIM the clone, not to judge anything)
                let advanced = rec.gens[0].as_ref().unwrap().verif_probe().0 > 0;
                if !clone_live && (rng.chance(1, 12) || (advanced && !cloned_after_elim && rng.chance(1, 2))) {
                    rec.clone_gen(0, 1);
                    rec.fin(1);
                    clone_live = true;
                    cloned_after_elim |= advanced;
                } else if clone_live && rng.chance(1, 10) {
                    clone_live = false;
                }
            }
            if decl_at == cuts.len() {
                declare(&mut rec, &mut rng, data.len() as u64, wrong, MAXSZ);
            }
            rec.fin(0);
            if rng.chance(1, 2) {
                rec.hash_buf(0);
            }
            if rng.chance(1, 2) {
                let mr = *rng.pick(&[1usize, 2, 7, 100, 5000, 40000]);
                rec.hash_stream(0, &mut rng, mr);
            }
            used += data.len() * if clone_live { 2 } else { 1 } + 200;
        }
    }
    // the reader-based function across the 32 KiB buffer border: payloads longer than one and two
    // buffers, delivered by short reads (first read short, then full; all reads short)
    for (n, mr) in [(34_000usize, 7usize), (66_000, 1000)] {
        rec.begin();
        rec.new_gen(0);
        rec.fin_every_call = false;
        let class = rng.below(4);
        let mut data = make_input(&mut rng, w, class, n);
        data.resize(n, 0x33);
        rec.update(0, 0, &data);
        rec.fin(0);
        rec.hash_buf(0);
        rec.hash_stream(0, &mut rng, mr);
        rec.hash_stream(0, &mut rng, 40000);
        used += n;
    }
    // declarations from the whole u64 range: around every power of two that an intermediate sum or a
    // narrower type could wrap at, up to u64::MAX; each refused one must leave the generator as it
    // was (a valid declaration, data and a finalisation follow on the same object)
    if with_decl {
        let mut vals: Vec<u64> = vec![MAXSZ - 1, MAXSZ, MAXSZ + 1, MAXSZ + 191, MAXSZ + 192, MAXSZ + 193];
        for sh_ in [31u32, 32, 38, 40, 48, 56, 62, 63] {
            let p = 1u64 << sh_;
            vals.extend_from_slice(&[p - 193, p - 192, p - 191, p - 1, p, p + 1, p + 191, p + 192]);
        }
        for d in [0u64, 1, 2, 95, 96, 190, 191, 192, 193, 255, 256, 383, 384] {
            vals.push(u64::MAX - d);
        }
        for (i, &v) in vals.iter().enumerate() {
            if i % 6 == 0 {
                rec.begin();
                rec.new_gen(0);
            } else {
                rec.reset(0);
            }
            rec.set_fixed(0, v, i % 2 == 1);
            rec.fin(0);
            let data = make_input(&mut rng, w, (i % 5) as u64, 40 + i);
            // a second declaration: the right one for what is about to be fed (accepted iff the first
            // was refused or was this very value)
            rec.set_fixed(0, data.len() as u64, i % 3 == 0);
            rec.update(0, (i % 6) as u8, &data);
            rec.fin(0);
        }
    }
    // Clone::clone_from between generators whose contexts are at different fill levels: a destination
    // that had FULL block hashes receives a source with few pieces, and the reverse; the clone is
    // finalised at once, after seven zero bytes, and after more data
    if !with_decl {
        for lv in [0i32, 1, 3] {
            for reverse in [false, true] {
                let mut full = vec![];
                words_seq(&mut rng, w, &[(lv, 70)], &mut full);
                let mut few = vec![];
                words_seq(&mut rng, w, &[(lv, 10)], &mut few);
                let mut more = vec![];
                words_seq(&mut rng, w, &[(lv, 3), (-1, 2)], &mut more);
                rec.begin();
                rec.new_gen(1);
                rec.update(1, 0, if reverse { &few } else { &full });
                rec.fin(1);
                rec.new_gen(0);
                rec.update(0, 1, if reverse { &full } else { &few });
                rec.fin(0);
                rec.clone_gen(0, 1); // clone_from into the used generator in slot 1
                rec.fin(1);
                rec.update(1, 2, &[0u8; 7]);
                rec.fin(1);
                rec.update(1, 0, &more);
                rec.fin(1);
                rec.fin(0);
            }
        }
    }
    // one call of more than 2^16 ordinary bytes per form (a 16-bit length or position would wrap)
    if !with_decl {
        for f in 0..2u8 {
            rec.begin();
            rec.new_gen(0);
            let data = make_input(&mut rng, w, if f == 0 { 0 } else { 4 }, 65_536 + 900);
            rec.update(0, f, &data);
            rec.fin(0);
            used += data.len();
        }
    }
    // long trigger-free runs through each update form in ONE call where the form allows it: the three
    // forms account the input size differently, and a counter narrower than the size would only show
    // here.  Compared with the closed-form state of n zero bytes and continued with a suffix.
    if !with_decl {
        let runs: Vec<(u64, u8)> = if a.tier == "thorough" {
            vec![((1u64 << 32) + 64, 1), ((1u64 << 33) + 5, 1), ((1u64 << 32) + 64, 2), ((1u64 << 32) + 64, 3), ((1u64 << 32) + 64, 0)]
        } else {
            vec![((1u64 << 32) + 64, 1), ((1u64 << 16) + 3, 2), ((1u64 << 31) + 9, 3)]
        };
        for (n, f) in runs {
            rec.begin();
            let g = real_zero_run(n, f);
            rec.slot(0);
            rec.gens[0] = Some(g);
            rec.sh.emit(&format!("{{\"ev\":\"realzeros\",\"g\":0,\"n\":{},\"f\":{}}}", jsize(n), f));
            rec.zeros(1, n);
            let eq = rec.gens[0].as_ref().unwrap().verif_inner_eq(rec.gens[1].as_ref().unwrap());
            rec.sh.emit(&format!("{{\"ev\":\"same\",\"g\":0,\"h\":1,\"r\":{}}}", eq));
            rec.fin(0);
            let mut suf = vec![];
            let lvx = rng.range(0, 12) as i32;
            words_seq(&mut rng, w, &[(lvx, 40), (-1, 1)], &mut suf);
            rec.update(0, 1, &suf);
            rec.fin(0);
        }
    }
    let st = rec.stats();
    println!("STATS {{\"hist\":{{{},\"bytes\":{}}}}}", st, used);
    sh.finish();
}
fn declare(rec: &mut GenRec, rng: &mut Rng, len: u64, wrong: bool, maxsz: u64) {
    // refused declarations first (must leave the generator unchanged)
    if rng.chance(1, 4) {
        let big = *rng.pick(&[maxsz + 1, u64::MAX, maxsz + 12345, 1u64 << 40]);
        rec.set_fixed(0, big, false);
    }
    let n = if wrong {
        match rng.below(3) {
            0 => len + 1,
            1 => len.saturating_sub(1),
            _ => len + rng.range(2, 5000) as u64,
        }
    } else {
        len
    };
    rec.set_fixed(0, n, rng.chance(1, 2));
    match rng.below(6) {
        0 => rec.set_fixed(0, n, rng.chance(1, 2)),          // second, equal declaration
        1 => rec.set_fixed(0, n + 1 + rng.below(3), false),   // second, different declaration
        2 => rec.set_fixed(0, maxsz, false),                  // the limit itself (different unless n = limit)
        3 => rec.set_fixed(0, maxsz + 1, false),              // too large takes precedence over mismatch
        _ => {}
    }
}

/// C13: generators positioned after N zero bytes (guarded hook), then a crafted suffix.
pub fn drive_sizes(a: &Args, w: &Words, thorough: bool) {
    let mut sh = Shards::new(&a.out, "gen_sizes", a.shards);
    let mut rng = Rng::new(a.seed ^ 0x2222);
    let mut rec = GenRec::new(&mut sh);
    rec.fin_every_call = false;
    const MAXSZ: u64 = 192u64 << 30;
    // (0) the error values themselves: name, displayed text, classification
    {
        use ssdeep::FuzzyHashOperationError as OE;
        let ge: Vec<String> = [GeneratorError::FixedSizeMismatch, GeneratorError::FixedSizeTooLarge, GeneratorError::InputSizeTooLarge, GeneratorError::OutputOverflow]
            .iter()
            .map(|e| format!("{{\"name\":\"{:?}\",\"msg\":\"{}\",\"tl\":{}}}", e, e, e.is_size_too_large_error()))
            .collect();
        let oe: Vec<String> = [OE::BlockHashOverflow, OE::StringizationOverflow].iter().map(|e| format!("{{\"name\":\"{:?}\",\"msg\":\"{}\"}}", e, e)).collect();
        rec.begin();
        rec.sh.emit(&format!("{{\"ev\":\"errs\",\"gen\":[{}],\"op\":[{}]}}", ge.join(","), oe.join(",")));
    }
    // (1) the hook itself against really feeding zeros, small n: stepped by the spec too
    let dense: Vec<u64> = if thorough { (0..=600).collect() } else { (0..=40).chain([63, 64, 65, 111, 112, 113, 191, 192, 193, 255, 256, 257, 599, 600]).collect() };
    for &n in &dense {
        rec.begin();
        rec.new_gen(0);
        let z = vec![0u8; n as usize];
        rec.update(0, (n % 3) as u8, &z);
        rec.zeros(1, n);
        let eq = rec.gens[0].as_ref().unwrap().verif_inner_eq(rec.gens[1].as_ref().unwrap());
        rec.sh.emit(&format!("{{\"ev\":\"same\",\"g\":0,\"h\":1,\"r\":{}}}", eq));
        rec.fin(0);
        rec.fin(1);
        let mut suf = vec![];
        let lvx = rng.range(0, 3) as i32;
        words_seq(&mut rng, w, &[(lvx, 3), (-1, 1)], &mut suf);
        rec.update(0, 0, &suf);
        rec.update(1, 0, &suf);
        rec.fin(0);
        rec.fin(1);
    }
    // (2) large n really fed (not stepped by the spec: validated as ZerosState(n) on outputs)
    let maxk = if thorough { 33 } else { 27 };
    let mut bigs: Vec<u64> = vec![];
    for k in 10..=maxk {
        bigs.push(1u64 << k);
        if k % 4 == 0 {
            bigs.push((1u64 << k) + 1);
            bigs.push((1u64 << k) - 1);
            bigs.push((192u64 << (k - 8)) + 1);
        }
    }
    for &n in &bigs {
        rec.begin();
        let g = real_zero_run(n, 0);
        rec.slot(0);
        rec.gens[0] = Some(g);
        rec.sh.emit(&format!("{{\"ev\":\"realzeros\",\"g\":0,\"n\":{},\"f\":0}}", jsize(n)));
        rec.zeros(1, n);
        let eq = rec.gens[0].as_ref().unwrap().verif_inner_eq(rec.gens[1].as_ref().unwrap());
        rec.sh.emit(&format!("{{\"ev\":\"same\",\"g\":0,\"h\":1,\"r\":{}}}", eq));
        rec.fin(0);
        rec.fin(1);
        let mut suf = vec![];
        let lvx = rng.range(0, 12) as i32;
        words_seq(&mut rng, w, &[(lvx, 40), (-1, 1)], &mut suf);
        rec.update(0, 0, &suf);
        rec.update(1, 0, &suf);
        rec.fin(0);
        rec.fin(1);
    }
    // (3) every block size border, crafted suffixes
    let reps = if thorough { 6 } else { 1 };
    for n in 0..=30i32 {
        let border = 192u64 << n;
        for delta in -2i64..=2 {
            for _ in 0..reps {
                let total = (border as i64 + delta) as u64;
                let fam = rng.below(9);
                let hi = (n + 1).min(30);
                let lo1 = (n - 1).max(0);
                let lo2 = (n - 2).max(0);
                let spec: Vec<(i32, usize)> = match fam {
                    0 => vec![(hi, 33)],
                    1 => vec![(n, 33), (hi, 5)],
                    2 => vec![(lo1, 40), (n, 20)],
                    3 => vec![(lo2, 40)],
                    4 => vec![(hi, 70)],
                    5 => vec![(n, 31), (hi, 31), (n, 2), (hi, 2)],
                    6 => vec![(lo1, 63), (n, 1), (-2, 1), (lo1, 2)],
                    7 => vec![(-1, 3)],
                    _ => vec![(rng.range(0, 30) as i32, rng.range(1, 70)), (rng.range(0, 30) as i32, rng.range(1, 70))],
                };
                let mut suf = vec![];
                words_seq(&mut rng, w, &spec, &mut suf);
                match rng.below(6) {
                    0 => suf.extend_from_slice(&[0u8; 7]),
                    1 => suf.extend_from_slice(pw(&mut rng, &w.maxroll)),
                    2 => suf.extend_from_slice(pw(&mut rng, &w.zeroroll)),
                    3 => suf.push(rng.next() as u8),
                    _ => {}
                }
                if (suf.len() as u64) > total {
                    suf.truncate(total as usize);
                }
                let nz = total - suf.len() as u64;
                rec.begin();
                rec.zeros(0, nz);
                let decl = rng.below(4);
                if decl == 0 {
                    rec.set_fixed(0, total, false);
                } else if decl == 1 {
                    rec.set_fixed(0, total + 1, false);
                }
                // deliver the suffix in up to three calls of mixed forms, observing in between
                let c1 = rng.range(0, suf.len());
                let c2 = rng.range(c1, suf.len());
                rec.update(0, rng.below(6) as u8, &suf[..c1]);
                rec.fin(0);
                rec.update(0, rng.below(6) as u8, &suf[c1..c2]);
                rec.update(0, rng.below(6) as u8, &suf[c2..]);
                if decl == 2 {
                    rec.set_fixed(0, total, true);
                }
                rec.fin(0);
            }
        }
    }
    // (4) the limit: exactly 192 GiB accepted, one more byte rejected; around 96 GiB
    for &total in &[MAXSZ - 1, MAXSZ, MAXSZ + 1, MAXSZ + 2, (96u64 << 30) - 1, 96u64 << 30, (96u64 << 30) + 1] {
        for fam in 0..(if thorough { 6 } else { 3 }) {
            let spec: Vec<(i32, usize)> = match fam {
                0 => vec![(30, 33)],
                1 => vec![(30, 70)],
                2 => vec![(29, 40), (30, 3)],
                3 => vec![(30, 31), (29, 5)],
                4 => vec![(rng.range(20, 30) as i32, 64), (30, 32)],
                _ => vec![],
            };
            let mut suf = vec![];
            words_seq(&mut rng, w, &spec, &mut suf);
            if rng.chance(1, 3) {
                suf.extend_from_slice(&[0u8; 7]);
            }
            let nz = total - suf.len() as u64;
            for declared in [false, true] {
                rec.begin();
                rec.zeros(0, nz);
                if declared {
                    rec.set_fixed(0, total, false);
                }
                let c1 = rng.range(0, suf.len());
                rec.update(0, 0, &suf[..c1]);
                rec.fin(0);
                rec.update(0, rng.below(6) as u8, &suf[c1..]);
                rec.fin(0);
            }
        }
    }
    // (5) the small-input query
    for &n in &[0u64, 1, 4095, 4096, 4097, 4098] {
        for &d in &[None, Some(0u64), Some(4096), Some(4097)] {
            rec.begin();
            rec.zeros(0, n);
            if let Some(d) = d {
                rec.set_fixed(0, d, false);
            }
            rec.fin(0);
        }
    }
    let st = rec.stats();
    println!("STATS {{\"sizes\":{{{}}}}}", st);
    sh.finish();
}


/// Re-execute the calls of a recorded unit (inputs only are read) and record afresh.
pub fn replay(inp: &str, out_dir: &str) {
    let mut sh = Shards::new(out_dir, "replay", 1);
    let mut rec = GenRec::new(&mut sh);
    rec.fin_every_call = false;
    let text = std::fs::read_to_string(inp).unwrap();
    let sz = |v: &serde_json::Value| -> u64 { (v[0].as_u64().unwrap() << 24) | v[1].as_u64().unwrap() };
    for line in text.lines().filter(|l| !l.trim().is_empty()) {
        let e: serde_json::Value = serde_json::from_str(line).unwrap();
        if e.get("unit").is_some() {
            rec.begin();
        }
        let g = e.get("g").and_then(|x| x.as_u64()).unwrap_or(0) as usize;
        match e["ev"].as_str().unwrap() {
            "new" => rec.new_gen(g),
            "zeros" => rec.zeros(g, sz(&e["n"])),
            "realzeros" => {
                let n = sz(&e["n"]);
                let f = e.get("f").and_then(|x| x.as_u64()).unwrap_or(0) as u8;
                let gen = real_zero_run(n, f);
                rec.slot(g);
                rec.gens[g] = Some(gen);
                rec.sh.emit(&format!("{{\"ev\":\"realzeros\",\"g\":{},\"n\":{},\"f\":{}}}", g, jsize(n), f));
            }
            "same" => {
                let h = e["h"].as_u64().unwrap() as usize;
                let eq = rec.gens[g].as_ref().unwrap().verif_inner_eq(rec.gens[h].as_ref().unwrap());
                rec.sh.emit(&format!("{{\"ev\":\"same\",\"g\":{},\"h\":{},\"r\":{}}}", g, h, eq));
            }
            "clone" => rec.clone_gen(g, e["to"].as_u64().unwrap() as usize),
            "reset" => rec.reset(g),
            "upd" => {
                let d: Vec<u8> = e["d"].as_array().unwrap().iter().map(|x| x.as_u64().unwrap() as u8).collect();
                rec.update(g, e["f"].as_u64().unwrap_or(0) as u8, &d);
            }
            "fin" => rec.fin(g),
            "fix" => rec.set_fixed(g, sz(&e["n"]), e["usz"].as_bool().unwrap_or(false)),
            "hashbuf" => rec.hash_buf(g),
            "hashstream" => rec.hash_stream_seeded(g, e["rs"].as_u64().unwrap_or(1), e["mr"].as_u64().unwrap_or(7) as usize),
            _ => {}
        }
    }
    sh.finish();
}

// ------------------------------------------------------------------ C18: stream / file hashing
#[cfg(all(feature = "easy-functions", feature = "std"))]
mod streams {
use super::*;
#[derive(Clone, Debug)]
pub enum El {
    D(usize),
    E(&'static str, u64),
    Z,
}
fn kind_of(name: &str) -> std::io::ErrorKind {
    match name {
        "Interrupted" => std::io::ErrorKind::Interrupted,
        "WouldBlock" => std::io::ErrorKind::WouldBlock,
        "UnexpectedEof" => std::io::ErrorKind::UnexpectedEof,
        "NotFound" => std::io::ErrorKind::NotFound,
        "PermissionDenied" => std::io::ErrorKind::PermissionDenied,
        _ => std::io::ErrorKind::Other,
    }
}
fn kind_name(k: std::io::ErrorKind) -> String {
    format!("{:?}", k)
}
struct Scripted<'b> {
    data: &'b [u8],
    pos: usize,
    script: Vec<El>,
    i: usize,
    reads: u64,
    errored: bool,
    reads_after_error: u64,
    bl_min: usize,
    bl_max: usize,
}
impl<'b> std::io::Read for Scripted<'b> {
    fn read(&mut self, buf: &mut [u8]) -> std::io::Result<usize> {
        self.reads += 1;
        self.bl_min = self.bl_min.min(buf.len());
        self.bl_max = self.bl_max.max(buf.len());
        if self.errored {
            self.reads_after_error += 1;
            return Ok(0);
        }
        if self.i >= self.script.len() {
            return Ok(0);
        }
        let el = self.script[self.i].clone();
        self.i += 1;
        match el {
            El::D(k) => {
                let n = k.min(buf.len()).min(self.data.len() - self.pos);
                buf[..n].copy_from_slice(&self.data[self.pos..self.pos + n]);
                self.pos += n;
                Ok(n)
            }
            El::E(kind, id) => {
                self.errored = true;
                Err(std::io::Error::new(kind_of(kind), format!("id={}", id)))
            }
            El::Z => Ok(0),
        }
    }
}
/// `Error::source()` of a `GeneratorOrIOError`: "io" / "gen" when it is the wrapped error itself
/// (same kind and text / equal value), "bad" otherwise
fn io_source(e: &ssdeep::GeneratorOrIOError) -> &'static str {
    use std::error::Error;
    match (e, e.source()) {
        (ssdeep::GeneratorOrIOError::IOError(w), Some(s)) => match s.downcast_ref::<std::io::Error>() {
            Some(x) if x.kind() == w.kind() && x.to_string() == w.to_string() => "io",
            _ => "bad",
        },
        (ssdeep::GeneratorOrIOError::GeneratorError(w), Some(s)) => match s.downcast_ref::<GeneratorError>() {
            Some(x) if x == w => "gen",
            _ => "bad",
        },
        _ => "bad",
    }
}
pub(super) fn io_result_json(r: std::thread::Result<Result<ssdeep::RawFuzzyHash, ssdeep::GeneratorOrIOError>>) -> String {
    match r {
        Err(_) => "{\"e\":\"panic\",\"kind\":\"\",\"id\":-1,\"src\":\"\"}".to_string(),
        Ok(Err(e)) => {
            let src = io_source(&e);
            match e {
                ssdeep::GeneratorOrIOError::GeneratorError(e) => format!("{{\"e\":\"{}\",\"kind\":\"\",\"id\":-1,\"src\":\"{}\"}}", gerr(e), src),
                ssdeep::GeneratorOrIOError::IOError(e) => {
                    let msg = e.to_string();
                    let id: i64 = msg.strip_prefix("id=").and_then(|x| x.parse().ok()).unwrap_or(-1);
                    format!("{{\"e\":\"io\",\"kind\":\"{}\",\"id\":{},\"src\":\"{}\"}}", kind_name(e.kind()), id, src)
                }
            }
        }
        Ok(Ok(h)) => {
            let s = res_json::<64, 32>(Ok(Ok(h)));
            format!("{},\"kind\":\"\",\"id\":-1,\"src\":\"\"}}", &s[..s.len() - 1])
        }
    }
}
fn script_json(s: &[El]) -> String {
    let v: Vec<String> = s
        .iter()
        .map(|e| match e {
            El::D(k) => format!("[\"d\",{}]", (*k).min(1 << 30)),
            El::E(kind, id) => format!("[\"e\",\"{}\",{}]", kind, id),
            El::Z => "[\"z\"]".to_string(),
        })
        .collect();
    format!("[{}]", v.join(","))
}
impl<'a> GenRec<'a> {
    /// hash_stream over `data` with a scripted reader; g = the generator that holds exactly the
    /// bytes delivered before end of file (meaningful when the script contains no error)
    pub fn stream(&mut self, g: usize, data: &[u8], script: Vec<El>) {
        let mut rd = Scripted { data, pos: 0, script: script.clone(), i: 0, reads: 0, errored: false, reads_after_error: 0, bl_min: usize::MAX, bl_max: 0 };
        let r = catch_unwind(AssertUnwindSafe(|| ssdeep::hash_stream(&mut rd)));
        // the caller prepared g for the buffer length the reader loop has today; if the loop asked
        // for other lengths the reader delivered another prefix: the comparison generator is then
        // rebuilt from what was really delivered (the property does not fix a buffer size)
        let mut g = g;
        let expect = self.gens.get(g).and_then(|x| x.as_ref()).map(|x| x.input_size()).unwrap_or(0);
        if !rd.errored && rd.pos as u64 != expect {
            g = 7;
            self.new_gen(g);
            let delivered = rd.pos;
            self.update(g, 0, &data[..delivered]);
        }
        self.sh.emit_w(
            &format!(
                "{{\"ev\":\"stream\",\"g\":{},\"n\":{},\"script\":{},\"r\":{},\"reads\":{},\"reads_after_error\":{},\"bl\":{}}}",
                g, data.len(), script_json(&script), io_result_json(r), rd.reads, rd.reads_after_error,
                if rd.bl_min == rd.bl_max { rd.bl_min as i64 } else { -1 }
            ),
            4,
        );
    }
    pub fn file(&mut self, g: usize, what: &str, path: &std::path::Path, meta: u64, delivered: u64) {
        let r = catch_unwind(AssertUnwindSafe(|| ssdeep::hash_file(path)));
        self.sh.emit_w(
            &format!("{{\"ev\":\"file\",\"g\":{},\"what\":\"{}\",\"meta\":{},\"delivered\":{},\"r\":{}}}", g, what, jsize(meta), jsize(delivered), io_result_json(r)),
            4,
        );
    }
}
pub fn drive_streams(a: &Args, w: &Words, thorough: bool) {
    let mut sh = Shards::new(&a.out, "gen_stream", a.shards);
    let mut rng = Rng::new(a.seed ^ 0x1818);
    let mut rec = GenRec::new(&mut sh);
    rec.fin_every_call = false;
    let mut nscripts = 0u64;
    let mut nfaults = 0u64;
    let mut skipped: Vec<String> = vec![];
    let kinds = ["Interrupted", "WouldBlock", "UnexpectedEof", "Other", "PermissionDenied"];
    let mut lens: Vec<usize> = vec![0, 1, 7, 300, 32767, 32768, 32769];
    if thorough {
        lens.extend([65535, 65536, 65537, 100000, 40000]);
    }
    let tmp = std::env::temp_dir().join(format!("verif_c18_{}_{}", std::process::id(), a.seed));
    let _ = std::fs::create_dir_all(&tmp);
    for (li, &len) in lens.iter().enumerate() {
        let class = rng.below(6);
        let mut data = make_input(&mut rng, w, class, len);
        data.resize(len, 0x55); // exactly this length (the 32 KiB buffer borders matter)
        rec.begin();
        rec.new_gen(0);
        rec.update(0, 0, &data);
        rec.fin(0);
        // fault-free: any pattern of short reads delivers everything
        let sizes: [usize; 6] = [1, 2, 7, 32767, 32768, 1 << 30];
        let patterns = if len <= 400 { 6 } else { 4 };
        for p in 0..patterns {
            let mut script = vec![];
            let mut pos = 0usize;
            while pos < len && script.len() < 70000 {
                let k = match p {
                    0 => 1 << 30,
                    1 => 32768,
                    2 => 32767,
                    3 => *rng.pick(&sizes),
                    4 => 7,
                    _ => 1,
                };
                if (p == 4 || p == 5) && len > 400 {
                    break;
                }
                script.push(El::D(k));
                pos += k.min(32768).min(len - pos);
            }
            script.push(El::D(1 << 30)); // the read that finds nothing left
            rec.stream(0, &data, script);
            nscripts += 1;
        }
        // faults: every kind at read index 0, 1, 2, the last data read, the EOF read
        let base: Vec<El> = {
            let mut v = vec![];
            let mut pos = 0usize;
            let k = if len > 1000 { 20000 } else { 3 };
            while pos < len {
                v.push(El::D(k));
                pos += k.min(len - pos);
            }
            v
        };
        let nreads = base.len();
        let mut idxs = vec![0usize, 1, 2, nreads.saturating_sub(1), nreads];
        idxs.sort();
        idxs.dedup();
        for &fi in &idxs {
            if fi > nreads {
                continue;
            }
            for (ki, kind) in kinds.iter().enumerate() {
                if !thorough && (fi + ki + li) % 2 == 1 {
                    continue;
                }
                let mut s: Vec<El> = base[..fi].to_vec();
                s.push(El::E(kind, (fi * 10 + ki) as u64));
                s.extend_from_slice(&base[fi..]);
                s.push(El::D(1 << 30));
                rec.stream(0, &data, s);
                nscripts += 1;
                nfaults += 1;
            }
        }
        // premature end of file after a prefix: the hash of the delivered prefix
        if len >= 7 {
            let p = if len > 1000 { 20000.min(len - 1) } else { len / 2 };
            rec.new_gen(1);
            rec.update(1, 0, &data[..p]);
            rec.stream(1, &data, vec![El::D(p), El::Z, El::D(1 << 30)]);
            nscripts += 1;
        }
        // files
        let path = tmp.join(format!("f{}", li));
        if std::fs::write(&path, &data).is_ok() {
            let meta = std::fs::metadata(&path).map(|m| m.len()).unwrap_or(0);
            rec.file(0, "regular", &path, meta, data.len() as u64);
            let _ = std::fs::remove_file(&path);
        } else {
            skipped.push("regular".into());
        }
    }
    // a reader that delivers n zero bytes (never materialised) in reads of at most `mr`, then end of
    // file or an error: sizes beyond 2^32 through the reader loop, against the closed-form state
    {
        struct Zeros {
            left: u64,
            mr: usize,
            fail: bool,
            ended: bool,
            reads_after_end: u64,
        }
        impl std::io::Read for Zeros {
            fn read(&mut self, buf: &mut [u8]) -> std::io::Result<usize> {
                if self.ended {
                    self.reads_after_end += 1;
                }
                if self.left == 0 {
                    self.ended = true;
                    return if self.fail { Err(std::io::Error::new(std::io::ErrorKind::Other, "id=77")) } else { Ok(0) };
                }
                let k = (buf.len().min(self.mr) as u64).min(self.left) as usize;
                buf[..k].fill(0);
                self.left -= k as u64;
                Ok(k)
            }
        }
        let runs: Vec<(u64, usize, bool)> = if thorough {
            // (the last ones: the NUMBER of read calls beyond 2^16, 192 GiB / 32 KiB, 2^24 and 2^32)
            vec![((1 << 32) + 64, 1 << 20, false), ((1 << 33) + 7, 32768, false), ((1 << 32) + 64, 30000, true), (70_000, 1, false),
                 (7_000_000, 1, false), (6_300_000, 1, true), ((1 << 24) + 5, 1, false), ((1 << 32) + 3, 1, false)]
        } else {
            vec![((1 << 32) + 64, 1 << 20, false), (100_000, 999, true), (70_000, 1, false),
                 (7_000_000, 1, false), (6_300_000, 1, true), ((1 << 24) + 5, 1, false)]
        };
        for (n, mr, fail) in runs {
            rec.begin();
            let mut rd = Zeros { left: n, mr, fail, ended: false, reads_after_end: 0 };
            let r = catch_unwind(AssertUnwindSafe(|| ssdeep::hash_stream(&mut rd)));
            rec.sh.emit(&format!(
                "{{\"ev\":\"streamzeros\",\"n\":{},\"mr\":{},\"fail\":{},\"r\":{},\"reads_after_end\":{}}}",
                jsize(n), mr, fail, io_result_json(r), rd.reads_after_end
            ));
            nscripts += 1;
            if fail {
                nfaults += 1;
            }
        }
    }
    rec.begin();
    rec.new_gen(0);
    rec.file(0, "missing", &tmp.join("does-not-exist"), 0, 0);
    rec.file(0, "dir", &tmp, 0, 0);
    // special files whose metadata size (0) differs from what they deliver
    let proc = std::path::Path::new("/proc/self/status");
    if proc.exists() && std::fs::metadata(proc).map(|m| m.len()).unwrap_or(1) == 0 && std::fs::read(proc).map(|c| c.len()).unwrap_or(0) > 0 {
        let n = std::fs::read(proc).map(|c| c.len()).unwrap_or(0);
        rec.file(0, "special", proc, 0, n as u64);
    } else {
        skipped.push("procfs".into());
    }
    let fifo = tmp.join("fifo");
    let made = std::process::Command::new("mkfifo").arg(&fifo).status().map(|s| s.success()).unwrap_or(false);
    if made {
        for payload in [b"some bytes through a pipe".to_vec(), vec![]] {
            let p2 = fifo.clone();
            let pl = payload.clone();
            let th = std::thread::spawn(move || {
                if let Ok(mut f) = std::fs::OpenOptions::new().write(true).open(&p2) {
                    use std::io::Write;
                    let _ = f.write_all(&pl);
                }
            });
            rec.new_gen(2);
            rec.update(2, 0, &payload);
            rec.file(2, "special", &fifo, 0, payload.len() as u64);
            let _ = th.join();
        }
        let _ = std::fs::remove_file(&fifo);
    } else {
        skipped.push("fifo".into());
    }
    let _ = std::fs::remove_dir_all(&tmp);
    let st = rec.stats();
    let sk: Vec<String> = skipped.iter().map(|s| format!("\"{}\"", s)).collect();
    println!("STATS {{\"stream\":{{{},\"scripts\":{},\"fault_scripts\":{},\"skipped\":[{}]}}}}", st, nscripts, nfaults, sk.join(","));
    sh.finish();
}

}
#[cfg(all(feature = "easy-functions", feature = "std"))]
pub use streams::drive_streams;
#[cfg(not(all(feature = "easy-functions", feature = "std")))]
pub fn drive_streams(_a: &Args, _w: &Words, _thorough: bool) {}
