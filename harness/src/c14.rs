//! C14: one fixed, seeded scenario slice of every family, run by the harness binary of every
//! build configuration.  The traces are validated against the same specification and compared
//! across configurations.
use crate::cmp::*;
use crate::util::*;
use crate::words::Words;

pub fn drive_c14(a: &Args, w: &Words) {
    let thorough = a.tier == "thorough";
    let mul = if thorough { 4 } else { 1 };
    // ---------------- generator slice
    {
        let mut sh = Shards::new(&a.out, "c14gen", a.shards);
        let mut rng = Rng::new(a.seed ^ 0x1401);
        let mut rec = crate::gen::GenRec::new(&mut sh);
        rec.fin_every_call = false;
        for k in [0usize, 1, 2, 5, 7, 8, 9, 14, 15, 16, 17, 18, 21, 29, 30] {
            for (total, upper, order) in [(64usize, 31usize, 0u8), (64, 32, 1), (65, 31, 2)] {
                let seq = crate::gen::corner_seq(&mut rng, w, k, total, upper, order);
                rec.begin();
                rec.zeros(0, (192u64 << k) + 5);
                rec.update(0, (k % 6) as u8, &seq);
                rec.fin(0);
                // the lower bound has advanced: one word of every level, each testing one bit of the
                // rolling-hash mask (those below the bound must be ignored)
                if order != 1 {
                    let sweep = crate::gen::level_sweep(&mut rng, w);
                    rec.update(0, ((k + 1) % 6) as u8, &sweep);
                    rec.fin(0);
                }
            }
        }
        for i in 0..(10 * mul) {
            let len = [0usize, 1, 7, 191, 192, 193, 385, 1000, 2500, 6000][i % 10];
            let data = crate::gen::make_input(&mut rng, w, (i % 8) as u64, len);
            rec.begin();
            rec.new_gen(0);
            rec.fin(0);
            // delivered in pieces of mixed forms, a clone in the middle, a declaration, a reset
            let mut pos = 0;
            let mut j = 0;
            while pos < data.len() {
                let k = rng.range(1, 700).min(data.len() - pos);
                rec.update(0, (j % 6) as u8, &data[pos..pos + k]);
                pos += k;
                j += 1;
                if j == 2 {
                    rec.clone_gen(0, 1);
                    rec.fin(1);
                }
            }
            if i % 3 == 0 {
                rec.set_fixed(0, data.len() as u64 + (i as u64 % 2), i % 2 == 0);
            }
            rec.fin(0);
            rec.hash_buf(0);
            rec.hash_stream_seeded(0, i as u64, 100);
            if i % 2 == 0 {
                rec.reset(0);
                rec.fin(0);
                let d2 = crate::gen::make_input(&mut rng, w, 4, 400);
                rec.update(0, 0, &d2);
                rec.fin(0);
            }
        }
        sh.finish();
    }
    // ---------------- comparison slice
    {
        let mut sh = Shards::new(&a.out, "c14cmp", a.shards);
        let mut rng = Rng::new(a.seed ^ 0x1402);
        let mut reuse = ssdeep::FuzzyHashCompareTarget::new();
        for i in 0..(250 * mul) {
            sh.next_unit();
            let long = i % 2 == 0;
            let x = rand_hash_k(&mut rng, long, i % 3 == 0);
            let y = related_hash(&mut rng, &x, long);
            ev_cmp(&mut sh, &mut reuse, &x, &y);
            if i % 5 == 0 {
                ev_win(&mut sh, &x);
            }
        }
        let strs = all_strings(2, 4);
        for x in &strs {
            sh.next_unit();
            for y in &strs {
                ev_ed(&mut sh, x, y);
            }
        }
        let full: Vec<u8> = (0..64).collect();
        for _ in 0..(200 * mul) {
            sh.next_unit();
            let al = alphabet(&mut rng);
            let la = pick_bh_len(&mut rng, 64);
            let x = rand_bh(&mut rng, la, &al, 0);
            let y = related(&mut rng, &x, 64, &full);
            ev_ed(&mut sh, &x, &y);
            ev_sub(&mut sh, &x, &y);
            let xn = cap_runs(&x, 3);
            if !xn.is_empty() {
                ev_ss(&mut sh, &xn, &y, rng.below(32) as u8);
            }
        }
        // the arithmetic helpers on a slice of their domain; with `unchecked` through the *_unchecked
        // entry points (their contracts hold on this domain), recorded under the same event names
        tables_slice(&mut sh);
        sh.finish();
    }
    // ---------------- object slice
    {
        let mut sh = Shards::new(&a.out, "c14obj", a.shards);
        let mut rng = Rng::new(a.seed ^ 0x1403);
        for (i, t) in crate::obj::border_texts().iter().chain(crate::obj::capacity_texts().iter()).chain(crate::obj::wrap_texts().iter()).enumerate() {
            if i % 16 == 0 {
                sh.next_unit();
            }
            crate::obj::ev_parse(&mut sh, t);
        }
        for i in 0..(500 * mul) {
            if i % 50 == 0 {
                sh.next_unit();
            }
            let t = if i % 2 == 0 { crate::obj::structured_text(&mut rng) } else { crate::obj::mutated_text(&mut rng) };
            crate::obj::ev_parse(&mut sh, &t);
        }
        let dirty = H { k: 7, a: vec![9u8; 64], b: vec![2u8; 64] };
        for i in 0..(80 * mul) {
            sh.next_unit();
            let al = alphabet(&mut rng);
            let la = pick_bh_len(&mut rng, 64);
            let lb = pick_bh_len(&mut rng, 64);
            let base = rand_bh(&mut rng, la, &al, 0);
            let h = H { k: rng.below(31) as u8, a: related(&mut rng, &base, 64, &al), b: rand_bh(&mut rng, lb, &al, 0) };
            crate::obj::ev_norm(&mut sh, &h);
            crate::obj::ev_dual(&mut sh, &h, &dirty);
            if i % 4 == 0 {
                crate::obj::ev_fmt(&mut sh, &h, i % 16 == 0);
            }
            let y = H { k: h.k, a: related(&mut rng, &h.a, 64, &al), b: h.b.clone() };
            crate::obj::ev_ord(&mut sh, &h, &y, i as u64);
        }
        for _ in 0..(12 * mul) {
            sh.next_unit();
            crate::hist::random_history(&mut sh, &mut rng, 80);
        }
        for i in 0..(600 * mul) {
            if i % 50 == 0 {
                sh.next_unit();
            }
            crate::hist::random_ctor(&mut sh, &mut rng);
        }
        sh.finish();
    }
    // ---------------- hash primitives
    {
        let mut b = Args { seed: a.seed, tier: "c14".into(), out: a.out.clone(), shards: a.shards, rest: vec![] };
        b.tier = "quick".into();
        crate::hashes::drive_hashes_scaled(&b, w, "c14hash", if thorough { 60_000 } else { 15_000 });
    }
}

fn tables_slice(sh: &mut Shards) {
    use ssdeep::{block_size, FuzzyHashCompareTarget};
    sh.next_unit();
    for l1 in (7..=64u8).step_by(3) {
        for l2 in [7u8, 8, 31, 32, 33, 63, 64] {
            let rs: Vec<u64> = (0..=(l1 as u32 + l2 as u32 - 14))
                .map(|d| {
                    #[cfg(feature = "unchecked")]
                    {
                        (unsafe { FuzzyHashCompareTarget::raw_score_by_edit_distance_unchecked(l1, l2, d) }) as u64
                    }
                    #[cfg(not(feature = "unchecked"))]
                    {
                        FuzzyHashCompareTarget::raw_score_by_edit_distance(l1, l2, d) as u64
                    }
                })
                .collect();
            sh.emit(&format!("{{\"ev\":\"rawscore\",\"panics\":0,\"l1\":{},\"l2\":{},\"rs\":{}}}", l1, l2, jarr_u64(&rs)));
        }
    }
    for n in 0..=31u8 {
        for l1 in [0u8, 1, 7, 12, 13, 32, 64] {
            let rs: Vec<u64> = (0..=64u8)
                .map(|l2| {
                    #[cfg(feature = "unchecked")]
                    {
                        if n < FuzzyHashCompareTarget::LOG_BLOCK_SIZE_CAPPING_BORDER {
                            return (unsafe { FuzzyHashCompareTarget::score_cap_on_block_hash_comparison_unchecked(n, l1, l2) }) as u64;
                        }
                    }
                    FuzzyHashCompareTarget::score_cap_on_block_hash_comparison(n, l1, l2) as u64
                })
                .collect();
            sh.emit(&format!("{{\"ev\":\"cap\",\"panics\":0,\"n\":{},\"l1\":{},\"rs\":{},\"border\":{}}}", n, l1, jarr_u64(&rs), FuzzyHashCompareTarget::LOG_BLOCK_SIZE_CAPPING_BORDER));
        }
    }
    for x in 0..31u8 {
        for y in 0..31u8 {
            let r = block_size::compare_sizes(x, y);
            let rs = match r {
                ssdeep::BlockSizeRelation::NearLt => "NearLt",
                ssdeep::BlockSizeRelation::NearEq => "NearEq",
                ssdeep::BlockSizeRelation::NearGt => "NearGt",
                ssdeep::BlockSizeRelation::Far => "Far",
            };
            let ord = match block_size::cmp(x, y) {
                std::cmp::Ordering::Less => -1,
                std::cmp::Ordering::Equal => 0,
                std::cmp::Ordering::Greater => 1,
            };
            sh.emit(&format!(
                "{{\"ev\":\"bsrel\",\"panics\":0,\"a\":{},\"b\":{},\"rel\":\"{}\",\"near\":{},\"eq\":{},\"lt\":{},\"gt\":{},\"ord\":{},\"relnear\":{}}}",
                x, y, rs, block_size::is_near(x, y), block_size::is_near_eq(x, y), block_size::is_near_lt(x, y), block_size::is_near_gt(x, y), ord, r.is_near()
            ));
        }
    }
    // logarithms (with `unchecked`: from_log_unchecked / log_from_valid_unchecked on the valid range)
    for n in 0..31u8 {
        #[cfg(feature = "unchecked")]
        let (bs, back) = unsafe {
            let bs = block_size::from_log_unchecked(n);
            (bs, block_size::log_from_valid_unchecked(bs))
        };
        #[cfg(not(feature = "unchecked"))]
        let (bs, back) = {
            let bs = block_size::from_log(n).unwrap();
            (bs, block_size::log_from_valid(bs))
        };
        let h = ssdeep::RawFuzzyHash::new_from_internals_near_raw(n, &[], &[]);
        let t = h.to_string();
        let p = ssdeep::LongFuzzyHash::from_bytes(t.as_bytes()).map(|x| x.log_block_size() as i32).unwrap_or(-1);
        sh.emit(&format!(
            "{{\"ev\":\"bslog\",\"panics\":0,\"n\":{},\"valid\":{},\"from\":{},\"back\":{},\"isvalid\":{},\"txt\":{},\"parsed\":{},\"acc\":{}}}",
            n, block_size::is_log_valid(n), jw32(bs), back, block_size::is_valid(bs), jarr_u8(t.as_bytes()), p, jw32(h.block_size())
        ));
    }
}
