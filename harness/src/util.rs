//! Small utilities: deterministic RNG, JSON fragments, sharded trace output.
//! (No oracle logic lives in this crate: it only drives the real API and records.)
use std::fmt::Write as _;
use std::io::Write as _;

#[derive(Clone)]
pub struct Rng(u64);
impl Rng {
    pub fn new(seed: u64) -> Self {
        Rng(seed ^ 0x9E37_79B9_7F4A_7C15)
    }
    pub fn next(&mut self) -> u64 {
        self.0 = self.0.wrapping_add(0x9E37_79B9_7F4A_7C15);
        let mut z = self.0;
        z = (z ^ (z >> 30)).wrapping_mul(0xBF58_476D_1CE4_E5B9);
        z = (z ^ (z >> 27)).wrapping_mul(0x94D0_49BB_1331_11EB);
        z ^ (z >> 31)
    }
    pub fn below(&mut self, n: u64) -> u64 {
        if n == 0 {
            0
        } else {
            self.next() % n
        }
    }
    pub fn range(&mut self, lo: usize, hi: usize) -> usize {
        lo + self.below((hi - lo + 1) as u64) as usize
    }
    pub fn chance(&mut self, num: u64, den: u64) -> bool {
        self.below(den) < num
    }
    pub fn pick<'a, T>(&mut self, xs: &'a [T]) -> &'a T {
        &xs[self.below(xs.len() as u64) as usize]
    }
    pub fn fork(&mut self) -> Rng {
        Rng::new(self.next())
    }
}

pub fn jarr_u8(xs: &[u8]) -> String {
    let mut s = String::with_capacity(xs.len() * 4 + 2);
    s.push('[');
    for (i, x) in xs.iter().enumerate() {
        if i > 0 {
            s.push(',');
        }
        let _ = write!(s, "{}", x);
    }
    s.push(']');
    s
}
pub fn jarr_u64(xs: &[u64]) -> String {
    let mut s = String::new();
    s.push('[');
    for (i, x) in xs.iter().enumerate() {
        if i > 0 {
            s.push(',');
        }
        let _ = write!(s, "{}", x);
    }
    s.push(']');
    s
}
pub fn jstr(x: &str) -> String {
    let mut s = String::with_capacity(x.len() + 2);
    s.push('"');
    for c in x.chars() {
        match c {
            '"' => s.push_str("\\\""),
            '\\' => s.push_str("\\\\"),
            c if (c as u32) < 0x20 => {
                let _ = write!(s, "\\u{:04x}", c as u32);
            }
            c => s.push(c),
        }
    }
    s.push('"');
    s
}
/// u64 as [hi, lo] in base 2^24 (radix change only).
pub fn jsize(n: u64) -> String {
    // hi saturates at 2^30: only arguments far above the 192 GiB limit are affected, where
    // nothing but "above the limit" matters.
    format!("[{},{}]", (n >> 24).min(1 << 30), n & 0xFF_FFFF)
}
/// u32 as [hi16, lo16].
pub fn jw32(n: u32) -> String {
    format!("[{},{}]", n >> 16, n & 0xFFFF)
}
/// u64 as little-endian 16-bit limbs (4 of them).
pub fn jw64(n: u64) -> String {
    format!(
        "[{},{},{},{}]",
        n & 0xFFFF,
        (n >> 16) & 0xFFFF,
        (n >> 32) & 0xFFFF,
        (n >> 48) & 0xFFFF
    )
}

/// Round-robin sharded ndjson writer: a *unit* (an independent history that starts
/// from a fresh abstract state) always goes to one shard.
pub struct Shards {
    files: Vec<std::io::BufWriter<std::fs::File>>,
    pub counts: Vec<u64>,
    cur: usize,
    pub weights: Vec<u64>,
    unit_pending: bool,
    pub units: u64,
    dir: String,
    prefix: String,
    bytes: Vec<u64>,
    parts: Vec<u32>,
}
/// a trace file is read into memory as a whole by the validator: start a new part beyond this size
const PART_BYTES: u64 = 40 << 20;
impl Shards {
    pub fn new(dir: &str, prefix: &str, n: usize) -> Self {
        std::fs::create_dir_all(dir).unwrap();
        let files = (0..n)
            .map(|i| {
                std::io::BufWriter::new(
                    std::fs::File::create(format!("{}/{}_{:02}.ndjson", dir, prefix, i)).unwrap(),
                )
            })
            .collect();
        Shards { files, counts: vec![0; n], cur: 0, weights: vec![0; n], unit_pending: true, units: 0, dir: dir.to_string(), prefix: prefix.to_string(), bytes: vec![0; n], parts: vec![0; n] }
    }
    /// Select the lightest shard for the next unit.
    pub fn next_unit(&mut self) {
        let mut best = 0;
        for i in 0..self.files.len() {
            if self.weights[i] < self.weights[best] {
                best = i;
            }
        }
        self.cur = best;
        self.unit_pending = true;
        self.units += 1;
        if self.bytes[best] > PART_BYTES {
            // units are independent histories: a new part is a trace of its own
            self.files[best].flush().unwrap();
            self.parts[best] += 1;
            self.bytes[best] = 0;
            self.files[best] = std::io::BufWriter::new(
                std::fs::File::create(format!("{}/{}_{:02}_p{:03}.ndjson", self.dir, self.prefix, best, self.parts[best])).unwrap(),
            );
        }
    }
    pub fn emit(&mut self, line: &str) {
        self.emit_w(line, 1);
    }
    pub fn emit_w(&mut self, line: &str, weight: u64) {
        let f = &mut self.files[self.cur];
        if self.unit_pending {
            // mark the first event of an independent history
            self.unit_pending = false;
            f.write_all(b"{\"unit\":1,").unwrap();
            f.write_all(line[1..].as_bytes()).unwrap();
        } else {
            f.write_all(line.as_bytes()).unwrap();
        }
        f.write_all(b"\n").unwrap();
        self.bytes[self.cur] += line.len() as u64 + 10;
        self.counts[self.cur] += 1;
        self.weights[self.cur] += weight;
    }
    pub fn finish(mut self) -> u64 {
        for f in self.files.iter_mut() {
            f.flush().unwrap();
        }
        self.counts.iter().sum()
    }
}

pub struct Args {
    pub seed: u64,
    pub tier: String,
    pub out: String,
    pub shards: usize,
    pub rest: Vec<String>,
}
pub fn parse_args(args: &[String]) -> Args {
    let mut a = Args { seed: 1, tier: "quick".into(), out: ".".into(), shards: 1, rest: vec![] };
    let mut i = 0;
    while i < args.len() {
        match args[i].as_str() {
            "--seed" => {
                a.seed = args[i + 1].parse().unwrap();
                i += 1;
            }
            "--tier" => {
                a.tier = args[i + 1].clone();
                i += 1;
            }
            "--out" => {
                a.out = args[i + 1].clone();
                i += 1;
            }
            "--shards" => {
                a.shards = args[i + 1].parse().unwrap();
                i += 1;
            }
            x => a.rest.push(x.to_string()),
        }
        i += 1;
    }
    a
}
