fn main() { println!("{}", ssdeep::hash_buf(b"Hello, World!\n").unwrap()); }
