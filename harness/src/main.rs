//! Verification harness for a4lg/ffuzzy: drives the real API and records what it
//! returned (trace validation), or replays TLC-generated scenarios.  It contains no
//! expected values: every judgement is made by TLC against the TLA+ specification.
mod c14;
mod cmp;
mod gen;
mod hashes;
mod hist;
mod obj;
mod util;
mod words;

static LAST_PANIC: std::sync::Mutex<String> = std::sync::Mutex::new(String::new());

fn main() {
    // a panic inside the library under test is data (recorded by the drivers), not noise; the place
    // of the last one is remembered so that a panic no driver caught can still be attributed
    let verbose = std::env::var_os("VERIF_PANIC_VERBOSE").is_some();
    std::panic::set_hook(Box::new(move |info| {
        let loc = info.location().map(|l| format!("{}:{}", l.file(), l.line())).unwrap_or_default();
        if verbose {
            eprintln!("panic at {}: {}", loc, info);
        }
        if let Ok(mut g) = LAST_PANIC.lock() {
            *g = loc;
        }
    }));
    if std::panic::catch_unwind(real_main).is_err() {
        // safety net: exit code 4 + the place; the check decides whether that place is the library
        println!("UNCAUGHT-PANIC {}", LAST_PANIC.lock().map(|g| g.clone()).unwrap_or_default());
        std::process::exit(4);
    }
}

fn real_main() {
    let argv: Vec<String> = std::env::args().collect();
    if argv.len() < 2 {
        eprintln!("usage: verif-harness <cmd> [--seed N] [--tier quick|thorough] [--out DIR] [--shards N]");
        std::process::exit(2);
    }
    let args = util::parse_args(&argv[2..]);
    match argv[1].as_str() {
        "findwords" => {
            let w = words::find(8, 16, args.seed);
            words::save(&w, &args.out);
            for (k, v) in w.levels.iter().enumerate() {
                eprintln!("level {}: {}", k, v.len());
            }
            eprintln!("maxroll {} zeroroll {} none {}", w.maxroll.len(), w.zeroroll.len(), w.none.len());
        }
        "gen" => {
            let w = words::load("/verif/corpus/trigger_words.json");
            let thorough = args.tier == "thorough";
            let mode = args.rest.get(0).map(|s| s.as_str()).unwrap_or("all").to_string();
            let kb = |q: usize, t: usize| if thorough { t * 1024 } else { q * 1024 };
            if mode == "inputs" || mode == "all" {
                gen::drive_inputs(&args, &w, kb(160, 4000), kb(24, 400));
            }
            if mode == "hist3" || mode == "all" {
                gen::drive_histories(&args, &w, kb(110, 3000), kb(12, 100), false);
            }
            if mode == "hist12" || mode == "all" {
                gen::drive_histories(&args, &w, kb(110, 3000), kb(12, 100), true);
            }
            if mode == "anchor" {
                gen::drive_anchor(&args);
            }
            if mode == "stream" {
                gen::drive_streams(&args, &w, thorough);
            }
            if mode == "sizes" || mode == "all" {
                gen::drive_sizes(&args, &w, thorough);
            }
        }
        "cmp" => {
            let thorough = args.tier == "thorough";
            let mode = args.rest.get(0).map(|s| s.as_str()).unwrap_or("all").to_string();
            let n = |q: usize, t: usize| if thorough { t } else { q };
            match mode.as_str() {
                "pairs" => cmp::drive_cmp(&args, n(2500, 200000)),
                "ed" => cmp::drive_ed(&args, thorough, n(3000, 200000)),
                "sub" => cmp::drive_sub(&args, thorough, n(3000, 1600000)),
                "ss" => cmp::drive_ss(&args, thorough, n(2000, 100000)),
                "reuse" => cmp::drive_reuse(&args, n(150, 40000), n(2000, 600000)),
                "tables" => cmp::drive_tables(&args),
                x => {
                    eprintln!("unknown cmp mode {}", x);
                    std::process::exit(2);
                }
            }
        }
        "obj" => {
            let thorough = args.tier == "thorough";
            let mode = args.rest.get(0).map(|s| s.as_str()).unwrap_or("all").to_string();
            match mode.as_str() {
                "parse" => obj::drive_parse(&args, thorough),
                "fmt" => obj::drive_fmt(&args, thorough),
                "norm" => obj::drive_norm(&args, thorough),
                "dual" => obj::drive_dual(&args, thorough),
                "ord" => obj::drive_ord(&args, thorough),
                "hist" => hist::drive_hist(&args, thorough),
                "ctor" => hist::drive_ctor(&args, thorough),
                "optable" => {
                    // the operation table of the object slot machine (compared with GenObj.tla Ops)
                    let v: Vec<String> = hist::OPS.iter().map(|(o, s, d)| format!("[\"{}\",\"{}\",\"{}\"]", o, s, d)).collect();
                    println!("[{}]", v.join(","));
                }
                x => {
                    eprintln!("unknown obj mode {}", x);
                    std::process::exit(2);
                }
            }
        }
        "c14" => {
            let w = words::load("/verif/corpus/trigger_words.json");
            c14::drive_c14(&args, &w);
        }
        "hashes" => {
            let w = words::load("/verif/corpus/trigger_words.json");
            hashes::drive_hashes(&args, &w, args.tier == "thorough");
        }
        "replay" => {
            // replay <family> <in.ndjson>  --out DIR
            match args.rest[0].as_str() {
                "gen" => gen::replay(&args.rest[1], &args.out),
                "cmp" => cmp::replay(&args.rest[1], &args.out),
                "obj" => hist::replay(&args.rest[1], &args.out),
                "hashes" => hashes::replay(&args.rest[1], &args.out, &words::load("/verif/corpus/trigger_words.json")),
                f => {
                    eprintln!("unknown replay family {}", f);
                    std::process::exit(2);
                }
            }
        }
        x => {
            eprintln!("unknown command {}", x);
            std::process::exit(2);
        }
    }
}
