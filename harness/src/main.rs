//! Verification harness for a4lg/ffuzzy: drives the real API and records what it
//! returned (trace validation), or replays TLC-generated scenarios.  It contains no
//! expected values: every judgement is made by TLC against the TLA+ specification.
mod util;
mod words;

fn main() {
    let argv: Vec<String> = std::env::args().collect();
    if argv.len() < 2 {
        eprintln!("usage: verif-harness <cmd> [--seed N] [--tier quick|thorough] [--out DIR] [--shards N]");
        std::process::exit(2);
    }
    let args = util::parse_args(&argv[2..]);
    match argv[1].as_str() {
        "findwords" => {
            let w = words::find(8, 16, args.seed);
            words::save(&w, &args.out);
            for (k, v) in w.levels.iter().enumerate() {
                eprintln!("level {}: {}", k, v.len());
            }
            eprintln!("maxroll {} zeroroll {} none {}", w.maxroll.len(), w.zeroroll.len(), w.none.len());
        }
        x => {
            eprintln!("unknown command {}", x);
            std::process::exit(2);
        }
    }
}
