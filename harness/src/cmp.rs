//! Comparison drivers (C02 C08 C09 C10 C17 C20): build block hash strings / hash pairs,
//! call every comparison entry point of the real library, record what it returned.
#![allow(deprecated)]
use crate::util::*;
use ssdeep::internal_comparison::{block_hash_position_array_element, BlockHashPositionArray, BlockHashPositionArrayData, BlockHashPositionArrayImpl};
#[cfg(feature = "unchecked")]
use ssdeep::internal_comparison::BlockHashPositionArrayImplUnchecked;
use ssdeep::{DualFuzzyHash, FuzzyHash, FuzzyHashCompareTarget, LongDualFuzzyHash, LongFuzzyHash, LongRawFuzzyHash, RawFuzzyHash};
use std::fmt::Write as _;
use std::panic::{catch_unwind, AssertUnwindSafe};

// ------------------------------------------------------------------ input shaping
/// random string over `alpha` symbols; `maxrun` = 0: unconstrained, else no run longer than it
pub fn rand_bh(rng: &mut Rng, len: usize, alpha: &[u8], maxrun: usize) -> Vec<u8> {
    let mut v: Vec<u8> = Vec::with_capacity(len);
    let mut tries = 0;
    while v.len() < len && tries < 20 * len + 100 {
        tries += 1;
        let c = *rng.pick(alpha);
        if maxrun > 0 && v.len() >= maxrun && v[v.len() - maxrun..].iter().all(|&x| x == c) {
            continue;
        }
        v.push(c);
    }
    v
}
pub fn alphabet(rng: &mut Rng) -> Vec<u8> {
    match rng.below(6) {
        0 => vec![rng.below(64) as u8, rng.below(64) as u8],
        1 => (0..3).map(|_| rng.below(64) as u8).collect(),
        2 => (0..8).map(|_| rng.below(64) as u8).collect(),
        _ => (0..64).collect(),
    }
}
pub fn pick_bh_len(rng: &mut Rng, cap: usize) -> usize {
    match rng.below(10) {
        0 => rng.range(0, 8.min(cap)),
        1 | 2 => cap,
        3 => cap - 1,
        4 => rng.range(7.min(cap), 16.min(cap)),
        _ => rng.range(0, cap),
    }
}
/// cap runs at 3 by dropping symbols (shaping only; the library's normalisation is never used
/// to prepare arguments whose contract demands a normalised string)
pub fn cap_runs(v: &[u8], maxrun: usize) -> Vec<u8> {
    let mut o: Vec<u8> = vec![];
    for &c in v {
        if o.len() >= maxrun && o[o.len() - maxrun..].iter().all(|&x| x == c) {
            continue;
        }
        o.push(c);
    }
    o
}
/// a string related to `a`: edits, rotation, run insertion, shift, subsequence, copy
pub fn related(rng: &mut Rng, a: &[u8], cap: usize, alpha: &[u8]) -> Vec<u8> {
    let mut b = a.to_vec();
    match rng.below(8) {
        0 => {
            let k = rng.range(1, 6);
            for _ in 0..k {
                match rng.below(3) {
                    0 if !b.is_empty() => {
                        let i = rng.range(0, b.len() - 1);
                        b.remove(i);
                    }
                    1 if b.len() < cap => {
                        let i = rng.range(0, b.len());
                        b.insert(i, *rng.pick(alpha));
                    }
                    _ if !b.is_empty() => {
                        let i = rng.range(0, b.len() - 1);
                        b[i] = *rng.pick(alpha);
                    }
                    _ => {}
                }
            }
        }
        1 if !b.is_empty() => {
            let r = rng.range(0, b.len() - 1);
            b.rotate_left(r);
        }
        2 if !b.is_empty() => {
            // run insertion
            let i = rng.range(0, b.len() - 1);
            let c = b[i];
            let n = rng.range(1, 8);
            for _ in 0..n {
                if b.len() < cap {
                    b.insert(i, c);
                }
            }
        }
        3 => {
            // shifted copy: drop a prefix, append fresh symbols
            let s = rng.range(0, b.len().min(10));
            b.drain(..s);
            while b.len() < cap && rng.chance(3, 4) {
                b.push(*rng.pick(alpha));
            }
        }
        4 => {
            // subsequence
            b = b.into_iter().filter(|_| rng.chance(4, 5)).collect();
        }
        5 if b.len() >= 7 => {
            // keep exactly one window of 7 (or 6: near miss), randomise the rest
            let keep = if rng.chance(1, 2) { 7 } else { 6 };
            let i = rng.range(0, b.len() - keep);
            let w: Vec<u8> = b[i..i + keep].to_vec();
            let len = pick_bh_len(rng, cap).max(keep);
            b = rand_bh(rng, len, alpha, 0);
            let j = rng.range(0, len - keep);
            b[j..j + keep].copy_from_slice(&w);
        }
        6 => {
            b.reverse();
        }
        _ => {}
    }
    b.truncate(cap);
    b
}

fn jbh(v: &[u8]) -> String {
    jarr_u8(v)
}
fn jhash(k: u8, a: &[u8], b: &[u8]) -> String {
    format!("{{\"k\":{},\"a\":{},\"b\":{}}}", k, jarr_u8(a), jarr_u8(b))
}
fn jobj(items: &[(String, String)]) -> String {
    let mut s = String::from("{");
    for (i, (k, v)) in items.iter().enumerate() {
        if i > 0 {
            s.push(',');
        }
        let _ = write!(s, "\"{}\":{}", k, v);
    }
    s.push('}');
    s
}
thread_local! {
    /// number of calls into the library that panicked while the current event was recorded
    static PANICS: std::cell::Cell<u32> = std::cell::Cell::new(0);
}
fn note_panic() {
    PANICS.with(|p| p.set(p.get() + 1));
}
/// the number of panics since the last call (recorded in every event as "panics")
pub fn take_panics() -> u32 {
    PANICS.with(|p| p.replace(0))
}
// a panicking call is recorded with a value of the RIGHT TYPE (TLC cannot compare a string with a
// number) and counted in "panics", which the specification requires to be 0
fn call_u32<F: FnOnce() -> u32>(f: F) -> String {
    match catch_unwind(AssertUnwindSafe(f)) {
        Ok(v) => v.to_string(),
        Err(_) => {
            note_panic();
            "-2".to_string()
        }
    }
}
fn call_bool<F: FnOnce() -> bool>(f: F) -> String {
    match catch_unwind(AssertUnwindSafe(f)) {
        Ok(v) => v.to_string(),
        Err(_) => {
            note_panic();
            "false".to_string()
        }
    }
}
fn pa_from(a: &[u8]) -> BlockHashPositionArray {
    // both ways of making one (new / Default), by the parity of the string's length
    let mut pa = if a.len() % 2 == 0 { BlockHashPositionArray::new() } else { BlockHashPositionArray::default() };
    pa.init_from(a);
    pa
}
fn is_norm(v: &[u8]) -> bool {
    v.windows(4).all(|w| !(w[0] == w[1] && w[1] == w[2] && w[2] == w[3]))
}

// ------------------------------------------------------------------ block-hash-level events
/// edit distance (C08) through every holder of a position array
pub fn ev_ed(sh: &mut Shards, a: &[u8], b: &[u8]) {
    let mut rs: Vec<(String, String)> = vec![];
    rs.push(("pa".into(), call_u32(|| pa_from(a).edit_distance(b))));
    rs.push(("pa_rev".into(), call_u32(|| pa_from(b).edit_distance(a))));
    #[cfg(feature = "unchecked")]
    rs.push(("unchecked".into(), call_u32(|| unsafe { pa_from(a).edit_distance_unchecked(b) })));
    // a position array that held something else before
    rs.push(("pa_reused".into(), call_u32(|| {
        let mut pa = pa_from(b);
        pa.init_from(a);
        pa.edit_distance(b)
    })));
    if is_norm(a) {
        if a.len() <= 64 {
            rs.push(("t1".into(), call_u32(|| {
                let h = LongRawFuzzyHash::new_from_internals_near_raw(0, a, &[]).normalize();
                FuzzyHashCompareTarget::from(&h).block_hash_1().edit_distance(b)
            })));
            rs.push(("t2".into(), call_u32(|| {
                let h = LongRawFuzzyHash::new_from_internals_near_raw(0, &[], a).normalize();
                FuzzyHashCompareTarget::from(&h).block_hash_2().edit_distance(b)
            })));
        }
    }
    sh.emit(&format!("{{\"ev\":\"ed\",\"a\":{},\"b\":{},\"rs\":{},\"panics\":{}}}", jbh(a), jbh(b), jobj(&rs), take_panics()));
}
/// common substring (C09)
pub fn ev_sub(sh: &mut Shards, a: &[u8], b: &[u8]) {
    let mut rs: Vec<(String, String)> = vec![];
    rs.push(("pa".into(), call_bool(|| pa_from(a).has_common_substring(b))));
    rs.push(("pa_rev".into(), call_bool(|| pa_from(b).has_common_substring(a))));
    #[cfg(feature = "unchecked")]
    rs.push(("unchecked".into(), call_bool(|| unsafe { pa_from(a).has_common_substring_unchecked(b) })));
    if is_norm(a) && is_norm(b) {
        rs.push(("t1".into(), call_bool(|| {
            let h = LongRawFuzzyHash::new_from_internals_near_raw(0, a, &[]).normalize();
            FuzzyHashCompareTarget::from(&h).block_hash_1().has_common_substring(b)
        })));
        // is_comparison_candidate on hashes that carry the strings as block hash 1 (equal sizes),
        // and crossing: a as block hash 2 at index k, b as block hash 1 at index k + 1
        rs.push(("cand_eq".into(), call_bool(|| {
            let x = LongRawFuzzyHash::new_from_internals_near_raw(3, a, &[]).normalize();
            let y = LongRawFuzzyHash::new_from_internals_near_raw(3, b, &[]).normalize();
            FuzzyHashCompareTarget::from(&x).is_comparison_candidate(&y)
        })));
        rs.push(("cand_lt".into(), call_bool(|| {
            let x = LongRawFuzzyHash::new_from_internals_near_raw(3, &[], a).normalize();
            let y = LongRawFuzzyHash::new_from_internals_near_raw(4, b, &[]).normalize();
            FuzzyHashCompareTarget::from(&x).is_comparison_candidate(&y)
        })));
        rs.push(("cand_gt".into(), call_bool(|| {
            let x = LongRawFuzzyHash::new_from_internals_near_raw(4, a, &[]).normalize();
            let y = LongRawFuzzyHash::new_from_internals_near_raw(3, &[], b).normalize();
            FuzzyHashCompareTarget::from(&x).is_comparison_candidate(&y)
        })));
    }
    sh.emit(&format!("{{\"ev\":\"sub\",\"a\":{},\"b\":{},\"rs\":{},\"panics\":{}}}", jbh(a), jbh(b), jobj(&rs), take_panics()));
}
/// per-block-hash score (a normalised by contract)
pub fn ev_ss(sh: &mut Shards, a: &[u8], b: &[u8], n: u8) {
    let mut rs: Vec<(String, String)> = vec![];
    let mut raw: Vec<(String, String)> = vec![];
    rs.push(("pa".into(), call_u32(|| pa_from(a).score_strings(b, n))));
    raw.push(("pa".into(), call_u32(|| pa_from(a).score_strings_raw(b))));
    #[cfg(feature = "unchecked")]
    {
        // contract: the array is valid and normalised (a is, by construction), lengths <= 64, n <= 31
        rs.push(("unchecked".into(), call_u32(|| unsafe { pa_from(a).score_strings_unchecked(b, n) })));
        raw.push(("unchecked".into(), call_u32(|| unsafe { pa_from(a).score_strings_raw_unchecked(b) })));
    }
    rs.push(("t1".into(), call_u32(|| {
        let h = LongRawFuzzyHash::new_from_internals_near_raw(0, a, &[]).normalize();
        FuzzyHashCompareTarget::from(&h).block_hash_1().score_strings(b, n)
    })));
    raw.push(("t2".into(), call_u32(|| {
        let h = LongRawFuzzyHash::new_from_internals_near_raw(0, &[], a).normalize();
        FuzzyHashCompareTarget::from(&h).block_hash_2().score_strings_raw(b)
    })));
    sh.emit(&format!("{{\"ev\":\"ss\",\"a\":{},\"b\":{},\"n\":{},\"rs\":{},\"raw\":{},\"panics\":{}}}", jbh(a), jbh(b), n, jobj(&rs), jobj(&raw), take_panics()));
}

// ------------------------------------------------------------------ hash-level events
pub struct H {
    pub k: u8,
    pub a: Vec<u8>,
    pub b: Vec<u8>,
}
impl H {
    fn long_raw(&self) -> LongRawFuzzyHash {
        LongRawFuzzyHash::new_from_internals_near_raw(self.k, &self.a, &self.b)
    }
    fn short_raw(&self) -> Option<RawFuzzyHash> {
        if self.b.len() <= 32 {
            Some(RawFuzzyHash::new_from_internals_near_raw(self.k, &self.a, &self.b))
        } else {
            None
        }
    }
    fn j(&self) -> String {
        jhash(self.k, &self.a, &self.b)
    }
    pub fn j_pub(&self) -> String {
        self.j()
    }
}
fn rel(k1: u8, k2: u8) -> i32 {
    (k1 as i32) - (k2 as i32)
}
/// compare A with B through every entry point (C02, C10).  A, B are RAW (may contain runs).
pub fn ev_cmp(sh: &mut Shards, reuse: &mut FuzzyHashCompareTarget, x: &H, y: &H) {
    let mut rs: Vec<(String, String)> = vec![];
    let mut rev: Vec<(String, String)> = vec![];
    let mut cand: Vec<(String, String)> = vec![];
    let mut candrev: Vec<(String, String)> = vec![];
    let xl = x.long_raw();
    let yl = y.long_raw();
    let xs = x.short_raw();
    let ys = y.short_raw();
    let xt = xl.to_string();
    let yt = yl.to_string();
    #[cfg(feature = "easy-functions")]
    {
        rs.push(("str".into(), match catch_unwind(|| ssdeep::compare(&xt, &yt)) {
            Ok(Ok(v)) => v.to_string(),
            Ok(Err(_)) => "-1".into(),
            Err(_) => {
                note_panic();
                "-2".into()
            }
        }));
        rev.push(("str".into(), match catch_unwind(|| ssdeep::compare(&yt, &xt)) {
            Ok(Ok(v)) => v.to_string(),
            Ok(Err(_)) => "-1".into(),
            Err(_) => {
                note_panic();
                "-2".into()
            }
        }));
    }
    #[cfg(not(feature = "easy-functions"))]
    let _ = (&xt, &yt);
    let xn: LongFuzzyHash = xl.normalize();
    let yn: LongFuzzyHash = yl.normalize();
    rs.push(("long".into(), call_u32(|| xn.compare(&yn))));
    rev.push(("long".into(), call_u32(|| yn.compare(&xn))));
    rs.push(("target".into(), call_u32(|| FuzzyHashCompareTarget::from(&xn).compare(&yn))));
    rev.push(("target".into(), call_u32(|| FuzzyHashCompareTarget::from(&yn).compare(&xn))));
    rs.push(("target_longdual".into(), call_u32(|| FuzzyHashCompareTarget::from(&xn).compare(&LongDualFuzzyHash::from_raw_form(&yl)))));
    rs.push(("target_from_dual".into(), call_u32(|| FuzzyHashCompareTarget::from(&LongDualFuzzyHash::from_raw_form(&xl)).compare(&yn))));
    // the reused target (whatever it held before)
    rs.push(("target_reused".into(), call_u32(|| {
        reuse.init_from(&xn);
        reuse.compare(&yn)
    })));
    cand.push(("cand".into(), call_bool(|| FuzzyHashCompareTarget::from(&xn).is_comparison_candidate(&yn))));
    candrev.push(("cand".into(), call_bool(|| FuzzyHashCompareTarget::from(&yn).is_comparison_candidate(&xn))));
    cand.push(("cand_reused".into(), call_bool(|| reuse.is_comparison_candidate(&yn))));
    if let (Some(xs), Some(ys)) = (xs, ys) {
        let xsn: FuzzyHash = xs.normalize();
        let ysn: FuzzyHash = ys.normalize();
        rs.push(("short".into(), call_u32(|| xsn.compare(&ysn))));
        rev.push(("short".into(), call_u32(|| ysn.compare(&xsn))));
        rs.push(("target_short".into(), call_u32(|| FuzzyHashCompareTarget::from(&xsn).compare(&ysn))));
        rs.push(("target_dual".into(), call_u32(|| FuzzyHashCompareTarget::from(&xsn).compare(&DualFuzzyHash::from_raw_form(&ys)))));
        cand.push(("cand_short".into(), call_bool(|| FuzzyHashCompareTarget::from(&xsn).is_comparison_candidate(&ysn))));
        if xsn != ysn {
            rs.push(("short_unequal".into(), call_u32(|| xsn.compare_unequal(&ysn))));
        }
    }
    // operands of a different width than the hash the target was made from (the target itself is
    // untyped: it may hold a block hash 2 of up to 64 symbols while the operand's type allows 32)
    if let Some(ys) = y.short_raw() {
        let ysn: FuzzyHash = ys.normalize();
        rs.push(("target_long_vs_short".into(), call_u32(|| FuzzyHashCompareTarget::from(&xn).compare(&ysn))));
        rs.push(("target_long_vs_shortdual".into(), call_u32(|| FuzzyHashCompareTarget::from(&xn).compare(&DualFuzzyHash::from_raw_form(&ys)))));
        cand.push(("cand_long_vs_short".into(), call_bool(|| FuzzyHashCompareTarget::from(&xn).is_comparison_candidate(&ysn))));
        let tl = FuzzyHashCompareTarget::from(&xn);
        if !tl.is_equiv(&ysn) {
            rs.push(("unequal_long_vs_short".into(), call_u32(|| tl.compare_unequal(&ysn))));
        }
        if rel(x.k, y.k) == 0 {
            rs.push(("near_eq_long_vs_short".into(), call_u32(|| tl.compare_near_eq(&ysn))));
        }
    }
    if let Some(xs) = x.short_raw() {
        let xsn: FuzzyHash = xs.normalize();
        rs.push(("target_short_vs_long".into(), call_u32(|| FuzzyHashCompareTarget::from(&xsn).compare(&yn))));
        rev.push(("target_long_vs_short".into(), call_u32(|| FuzzyHashCompareTarget::from(&yn).compare(&xsn))));
        candrev.push(("cand_long_vs_short".into(), call_bool(|| FuzzyHashCompareTarget::from(&yn).is_comparison_candidate(&xsn))));
    }
    // the relation-specific entry points, where their contracts hold
    let t = FuzzyHashCompareTarget::from(&xn);
    let equiv = t.is_equiv(&yn);
    match rel(x.k, y.k) {
        0 => {
            rs.push(("near_eq".into(), call_u32(|| t.compare_near_eq(&yn))));
            cand.push(("near_eq".into(), call_bool(|| t.is_comparison_candidate_near_eq(&yn))));
            if !equiv {
                rs.push(("unequal_near_eq".into(), call_u32(|| t.compare_unequal_near_eq(&yn))));
            }
        }
        -1 => {
            rs.push(("unequal_near_lt".into(), call_u32(|| t.compare_unequal_near_lt(&yn))));
            cand.push(("near_lt".into(), call_bool(|| t.is_comparison_candidate_near_lt(&yn))));
        }
        1 => {
            rs.push(("unequal_near_gt".into(), call_u32(|| t.compare_unequal_near_gt(&yn))));
            cand.push(("near_gt".into(), call_bool(|| t.is_comparison_candidate_near_gt(&yn))));
        }
        _ => {}
    }
    if !equiv {
        rs.push(("unequal".into(), call_u32(|| t.compare_unequal(&yn))));
    }
    #[cfg(feature = "unchecked")]
    {
        // the unchecked entry points, exactly where the documented contracts hold
        match rel(x.k, y.k) {
            0 => {
                rs.push(("u_near_eq".into(), call_u32(|| unsafe { t.compare_near_eq_unchecked(&yn) })));
                cand.push(("u_near_eq".into(), call_bool(|| unsafe { t.is_comparison_candidate_near_eq_unchecked(&yn) })));
                if !equiv {
                    rs.push(("u_unequal_near_eq".into(), call_u32(|| unsafe { t.compare_unequal_near_eq_unchecked(&yn) })));
                }
            }
            -1 => {
                rs.push(("u_unequal_near_lt".into(), call_u32(|| unsafe { t.compare_unequal_near_lt_unchecked(&yn) })));
                cand.push(("u_near_lt".into(), call_bool(|| unsafe { t.is_comparison_candidate_near_lt_unchecked(&yn) })));
            }
            1 => {
                rs.push(("u_unequal_near_gt".into(), call_u32(|| unsafe { t.compare_unequal_near_gt_unchecked(&yn) })));
                cand.push(("u_near_gt".into(), call_bool(|| unsafe { t.is_comparison_candidate_near_gt_unchecked(&yn) })));
            }
            _ => {}
        }
        if !equiv {
            rs.push(("u_unequal".into(), call_u32(|| unsafe { t.compare_unequal_unchecked(&yn) })));
        }
        if xn != yn {
            rs.push(("u_long_unequal".into(), call_u32(|| unsafe { xn.compare_unequal_unchecked(&yn) })));
        }
    }
    if xn != yn {
        rs.push(("long_unequal".into(), call_u32(|| xn.compare_unequal(&yn))));
    }
    sh.emit_w(
        &format!(
            "{{\"ev\":\"cmp\",\"A\":{},\"B\":{},\"rs\":{},\"rev\":{},\"cand\":{},\"candrev\":{},\"panics\":{}}}",
            x.j(), y.j(), jobj(&rs), jobj(&rev), jobj(&cand), jobj(&candrev), take_panics()
        ),
        1,
    );
}

fn jwins(it: impl Iterator<Item = u64>) -> String {
    let mut s = String::from("[");
    for (i, n) in it.enumerate() {
        if i > 0 {
            s.push(',');
        }
        // radix change only: the low 42 bits as 7 base-64 digits (most significant first),
        // everything above as "hi"
        let d: Vec<u8> = (0..7).map(|j| ((n >> (6 * (6 - j))) & 63) as u8).collect();
        let _ = write!(s, "{{\"hi\":{},\"d\":{}}}", n >> 42, jarr_u8(&d));
    }
    s.push(']');
    s
}
/// windows of a NORMALISED hash (C10)
pub fn ev_win(sh: &mut Shards, x: &H) {
    let h: LongFuzzyHash = x.long_raw().normalize();
    let w = |it: core::slice::Windows<'_, u8>| -> String {
        let v: Vec<String> = it.map(|w| jarr_u8(w)).collect();
        format!("[{}]", v.join(","))
    };
    let lens = vec![
        h.block_hash_1_windows().len() as u64,
        h.block_hash_2_windows().len() as u64,
        h.block_hash_1_numeric_windows().len() as u64,
        h.block_hash_2_numeric_windows().len() as u64,
        h.block_hash_1_index_windows().len() as u64,
        h.block_hash_2_index_windows().len() as u64,
    ];
    // iterator laws: exact size after every step, fused after the end
    let mut it = h.block_hash_1_index_windows();
    let mut steps: Vec<u64> = vec![it.len() as u64];
    let mut hints_ok = it.size_hint() == (it.len(), Some(it.len()));
    while it.next().is_some() {
        steps.push(it.len() as u64);
        hints_ok &= it.size_hint() == (it.len(), Some(it.len()));
    }
    let fused = it.next().is_none() && it.next().is_none() && it.len() == 0;
    let mut it2 = h.block_hash_2_numeric_windows();
    let mut steps2: Vec<u64> = vec![it2.len() as u64];
    while it2.next().is_some() {
        steps2.push(it2.len() as u64);
        hints_ok &= it2.size_hint() == (it2.len(), Some(it2.len()));
    }
    let fused2 = it2.next().is_none() && it2.next().is_none();
    // the other ways of consuming the SAME iterator object: nth(n) then the rest, skip, step_by,
    // last, count -- for n around the window length (an overridden nth must leave the iterator where
    // n + 1 calls of next would)
    let nw1 = h.block_hash_1_numeric_windows().len();
    let nw2 = h.block_hash_2_index_windows().len();
    let mut nth: Vec<String> = vec![];
    for n in [0usize, 1, 5, 6, 7, 8, 13, nw1.saturating_sub(1), nw1, nw1 + 3] {
        let mut a = h.block_hash_1_numeric_windows();
        let got = a.nth(n);
        let mut b = h.block_hash_2_index_windows();
        let got2 = b.nth(n.min(nw2 + 1));
        nth.push(format!(
            "{{\"n\":{},\"n2\":{},\"got\":{},\"rest\":{},\"got2\":{},\"rest2\":{},\"skip\":{},\"step\":{},\"last\":{},\"count\":{}}}",
            n, n.min(nw2 + 1), jwins(got.into_iter()), jwins(a), jwins(got2.into_iter()), jwins(b),
            jwins(h.block_hash_1_index_windows().skip(n)), jwins(h.block_hash_1_numeric_windows().step_by(n + 1)),
            jwins(h.block_hash_2_numeric_windows().skip(n / 2).last().into_iter()), h.block_hash_1_index_windows().skip(n).count()
        ));
    }
    sh.emit(&format!(
        "{{\"ev\":\"win\",\"panics\":0,\"nth\":[{}],\"iter1\":{},\"iter2\":{},\"fused\":{},\"hints\":{},\"A\":{},\"w1\":{},\"w2\":{},\"n1\":{},\"n2\":{},\"i1\":{},\"i2\":{},\"lens\":{}}}",
        nth.join(","), jarr_u64(&steps), jarr_u64(&steps2), fused && fused2, hints_ok,
        jhash(h.log_block_size(), h.block_hash_1(), h.block_hash_2()),
        w(h.block_hash_1_windows()),
        w(h.block_hash_2_windows()),
        jwins(h.block_hash_1_numeric_windows()),
        jwins(h.block_hash_2_numeric_windows()),
        jwins(h.block_hash_1_index_windows()),
        jwins(h.block_hash_2_index_windows()),
        jarr_u64(&lens)
    ));
}

/// the string entry point on arbitrary texts (valid, with a ",name" suffix, mutated): score or error side
#[cfg(feature = "easy-functions")]
pub fn ev_cmpstr(sh: &mut Shards, ta: &[u8], tb: &[u8]) {
    use ssdeep::{ParseErrorInfo, ParseErrorSide};
    let (sa, sb) = match (std::str::from_utf8(ta), std::str::from_utf8(tb)) {
        (Ok(a), Ok(b)) => (a, b),
        _ => return,
    };
    let r = match catch_unwind(|| ssdeep::compare(sa, sb)) {
        Ok(Ok(v)) => format!("{{\"ok\":\"ok\",\"score\":{},\"side\":\"\",\"origin\":\"\",\"kind\":\"\",\"off\":0,\"msg\":\"\"}}", v),
        Ok(Err(e)) => format!(
            "{{\"ok\":\"err\",\"score\":-1,\"side\":\"{}\",\"origin\":\"{:?}\",\"kind\":\"{:?}\",\"off\":{},\"msg\":\"{}\"}}",
            match e.side() {
                ParseErrorSide::Left => "Left",
                ParseErrorSide::Right => "Right",
            },
            e.origin(),
            e.kind(),
            e.offset().min(1 << 30),
            e.to_string().replace('\\', "\\\\").replace('"', "\\\"")
        ),
        Err(_) => {
            note_panic();
            "{\"ok\":\"panic\",\"score\":-2,\"side\":\"\",\"origin\":\"\",\"kind\":\"\",\"off\":0,\"msg\":\"\"}".to_string()
        }
    };
    sh.emit(&format!("{{\"ev\":\"cmpstr\",\"ta\":{},\"tb\":{},\"r\":{},\"panics\":{}}}", jarr_u8(ta), jarr_u8(tb), r, take_panics()));
}
#[cfg(not(feature = "easy-functions"))]
pub fn ev_cmpstr(_sh: &mut Shards, _ta: &[u8], _tb: &[u8]) {}

// ------------------------------------------------------------------ pair generators
pub fn rand_hash(rng: &mut Rng, k: u8, long: bool, norm: bool) -> H {
    let alpha = alphabet(rng);
    let la = pick_bh_len(rng, 64);
    let lb = pick_bh_len(rng, if long { 64 } else { 32 });
    H { k, a: rand_bh(rng, la, &alpha, if norm { 3 } else { 0 }), b: rand_bh(rng, lb, &alpha, if norm { 3 } else { 0 }) }
}
pub fn rand_hash_k(rng: &mut Rng, long: bool, norm: bool) -> H {
    let k = pick_k(rng);
    rand_hash(rng, k, long, norm)
}
pub fn pick_k(rng: &mut Rng) -> u8 {
    match rng.below(4) {
        0 => rng.below(6) as u8,
        1 => 25 + rng.below(6) as u8,
        _ => rng.below(31) as u8,
    }
}
pub fn related_hash(rng: &mut Rng, x: &H, long: bool) -> H {
    let alpha = alphabet(rng);
    let cap2 = if long { 64 } else { 32 };
    let dk: i32 = *rng.pick(&[0, 0, 0, 1, -1, 1, -1, 2, -2]);
    let k = ((x.k as i32 + dk).max(0).min(30)) as u8;
    let (mut a, mut b) = match rng.below(6) {
        0 => (x.a.clone(), x.b.clone()),                                             // identical content
        1 => (related(rng, &x.a, 64, &alpha), x.b.clone()),
        2 => (x.a.clone(), related(rng, &x.b, cap2, &alpha)),
        3 => (related(rng, &x.a, 64, &alpha), related(rng, &x.b, cap2, &alpha)),
        4 => (related(rng, &x.b, 64, &alpha), related(rng, &x.a, cap2, &alpha)),      // crossing
        _ => (x.b.clone(), x.a.clone()),                                             // exact crossing
    };
    a.truncate(64);
    b.truncate(cap2);
    H { k, a, b }
}

fn cap_runs3(v: &[u8]) -> Vec<u8> {
    let mut o: Vec<u8> = vec![];
    for &c in v {
        let n = o.len();
        if n >= 3 && o[n - 1] == c && o[n - 2] == c && o[n - 3] == c {
            continue;
        }
        o.push(c);
    }
    o
}
/// C02 / C10 pairs at full scale
pub fn drive_cmp(a: &Args, n_pairs: usize) {
    let mut sh = Shards::new(&a.out, "cmp_pairs", a.shards);
    let mut rng = Rng::new(a.seed ^ 0x3333);
    let mut reuse = FuzzyHashCompareTarget::new();
    let mut nontrivial = 0u64;
    for i in 0..n_pairs {
        sh.next_unit();
        let long = rng.chance(1, 2);
        let norm = rng.chance(1, 3);
        let x = rand_hash_k(&mut rng, long, norm);
        let y = if rng.chance(1, 5) { rand_hash(&mut rng, x.k, long, norm) } else { related_hash(&mut rng, &x, long) };
        ev_cmp(&mut sh, &mut reuse, &x, &y);
        if i % 4 == 0 {
            ev_win(&mut sh, &x);
        }
        if i % 3 == 0 {
            // the same pair as TEXTS: as is, with a trailing ",name", and mutated
            let mut ta = x.long_raw().to_string().into_bytes();
            let mut tb = y.long_raw().to_string().into_bytes();
            match rng.below(4) {
                0 => ta.extend_from_slice(b",\"a file\""),
                1 => tb = crate::obj::mutated_text(&mut rng),
                2 => ta = crate::obj::mutated_text(&mut rng),
                _ => {}
            }
            ev_cmpstr(&mut sh, &ta, &tb);
        }
        if FuzzyHashCompareTarget::from(&x.long_raw().normalize()).is_comparison_candidate(&y.long_raw().normalize()) {
            nontrivial += 1;
        }
    }
    // the capping region, systematically: block size indices 0..5 (cap applies below 4; block hash 2
    // has the effective index k + 1), every near relation, block hashes of 7..13 symbols (cap < 100)
    // that are nearly identical (raw score far above the cap), in block hash 1 / 2 / both / crossing
    let full: Vec<u8> = (0..64).collect();
    for k in 0..=5u8 {
        for dk in [0i32, 1, -1] {
            let k2 = k as i32 + dk;
            if k2 < 0 {
                continue;
            }
            for len in 7..=13usize {
                for which in 0..4 {
                    sh.next_unit();
                    let s = rand_bh(&mut rng, len, &full, 3);
                    let mut t = s.clone();
                    t.push((s[0] + 1) % 64);          // one symbol appended: edit distance 1
                    let other = rand_bh(&mut rng, 9, &full, 3);
                    let (x, y) = match which {
                        0 => (H { k, a: s.clone(), b: other.clone() }, H { k: k2 as u8, a: t.clone(), b: vec![] }),
                        1 => (H { k, a: other.clone(), b: s.clone() }, H { k: k2 as u8, a: vec![], b: t.clone() }),
                        2 => (H { k, a: s.clone(), b: s.clone() }, H { k: k2 as u8, a: t.clone(), b: t.clone() }),
                        _ => (H { k, a: s.clone(), b: t.clone() }, H { k: k2 as u8, a: t.clone(), b: s.clone() }),
                    };
                    ev_cmp(&mut sh, &mut reuse, &x, &y);
                }
            }
        }
    }
    // IDENTICAL block hashes where only one pair of block hashes is compared, at the block sizes
    // where the cap decides (and two above), for every length class up to 64: crossing (a's block
    // hash 2 is b's block hash 1 at the doubled block size) and same-size with the other pair unrelated
    for k in 0..=6u8 {
        for &ln in &[7usize, 8, 12, 13, 16, 31, 32, 33, 40, 63, 64] {
            for which in 0..3 {
                sh.next_unit();
                let sstr = rand_bh(&mut rng, ln, &full, 3);
                let o1 = rand_bh(&mut rng, 9, &full, 3);
                let o2 = rand_bh(&mut rng, 11, &full, 3);
                let (x, y) = match which {
                    0 => (H { k, a: o1, b: sstr.clone() }, H { k: k + 1, a: sstr.clone(), b: o2 }),
                    1 => (H { k, a: sstr.clone(), b: o1 }, H { k, a: sstr.clone(), b: o2 }),
                    _ => (H { k, a: o1, b: sstr.clone() }, H { k, a: o2, b: sstr.clone() }),
                };
                ev_cmp(&mut sh, &mut reuse, &x, &y);
            }
        }
    }
    // mixed widths, systematically: one hash with a block hash 2 of 33..64 symbols (long forms only),
    // the other with at most 32 (fits the short forms) that is a slice of it -- at the start, across
    // position 32, in the middle of the upper half and at the very end -- with a few edits; block
    // hash 1 unrelated, so that block hash 2 decides.  ev_cmp runs every target/operand width mix.
    for &ln in &[33usize, 40, 48, 63, 64] {
        for &m in &[7usize, 12, 20, 32] {
            for (si, start) in [0usize, 26usize.min(ln - m), (ln - m) / 2 + 16usize.min((ln - m) / 2), ln - m].into_iter().enumerate() {
                sh.next_unit();
                let k = [0u8, 3, 4, 17, 30][(ln + m + si) % 5];
                let big = rand_bh(&mut rng, ln, &full, 3);
                let mut small: Vec<u8> = big[start..start + m].to_vec();
                if si % 2 == 1 && m > 8 {
                    small.remove(m / 2);
                    small.insert(1, (small[0] + 5) % 64);
                }
                let a1 = rand_bh(&mut rng, 20, &full, 3);
                let a2 = rand_bh(&mut rng, 20, &full, 3);
                let x = H { k, a: a1, b: big };
                let y = H { k, a: a2, b: cap_runs3(&small) };
                ev_cmp(&mut sh, &mut reuse, &x, &y);
                ev_cmp(&mut sh, &mut reuse, &y, &x);
                if k > 0 {
                    // block hash 2 of the smaller block size against block hash 1 of the larger one
                    let z = H { k: k - 1, a: rand_bh(&mut rng, 9, &full, 3), b: y.b.clone() };
                    let w = H { k, a: x.b.clone(), b: vec![] };
                    ev_cmp(&mut sh, &mut reuse, &w, &z);
                    ev_cmp(&mut sh, &mut reuse, &z, &w);
                }
            }
        }
    }
    // all 31 x 31 block size combinations on one related content pair each (dispatch)
    for k1 in 0..31u8 {
        for k2 in 0..31u8 {
            if (k1 as i32 - k2 as i32).abs() > 2 && rng.chance(3, 4) {
                continue;
            }
            sh.next_unit();
            let mut x = rand_hash(&mut rng, k1, true, true);
            x.a = rand_bh(&mut rng, 20, &(0..64).collect::<Vec<u8>>(), 3);
            x.b = rand_bh(&mut rng, 20, &(0..64).collect::<Vec<u8>>(), 3);
            let y = H { k: k2, a: if rng.chance(1, 2) { x.b.clone() } else { x.a.clone() }, b: if rng.chance(1, 2) { x.a.clone() } else { x.b.clone() } };
            ev_cmp(&mut sh, &mut reuse, &x, &y);
        }
    }
    println!("STATS {{\"cmp\":{{\"pairs\":{},\"candidate_pairs\":{}}}}}", n_pairs, nontrivial);
    sh.finish();
}

/// C08: exhaustive small alphabets + structured / random at full scale
pub fn drive_ed(a: &Args, thorough: bool, n_random: usize) {
    let mut sh = Shards::new(&a.out, "cmp_ed", a.shards);
    let mut rng = Rng::new(a.seed ^ 0x4444);
    let mut n = 0u64;
    // exhaustive: all pairs over {0,1} up to length L2, over {0,1,2} up to L3
    let (l2, l3) = if thorough { (8, 5) } else { (6, 4) };
    for (alpha, maxlen) in [(2u8, l2), (3u8, l3)] {
        let strs = all_strings(alpha, maxlen);
        for x in &strs {
            sh.next_unit();
            for y in &strs {
                ev_ed(&mut sh, x, y);
                n += 1;
            }
        }
    }
    let full: Vec<u8> = (0..64).collect();
    for _ in 0..n_random {
        sh.next_unit();
        let alpha = alphabet(&mut rng);
        let la = pick_bh_len(&mut rng, 64);
        let x = match rng.below(6) {
            0 => vec![*rng.pick(&alpha); la],                                  // a = x^n
            1 => (0..la).map(|i| alpha[i % 2.min(alpha.len())]).collect(),      // alternating: long carry chains
            _ => rand_bh(&mut rng, la, &alpha, 0),
        };
        let y = if rng.chance(1, 4) {
            let lb = pick_bh_len(&mut rng, 64);
            rand_bh(&mut rng, lb, &alpha, 0)
        } else {
            {
                let use_alpha = rng.chance(1, 2);
                related(&mut rng, &x, 64, if use_alpha { &alpha } else { &full })
            }
        };
        ev_ed(&mut sh, &x, &y);
        n += 1;
    }
    println!("STATS {{\"ed\":{{\"pairs\":{}}}}}", n);
    sh.finish();
}
pub fn all_strings(alpha: u8, maxlen: usize) -> Vec<Vec<u8>> {
    let mut out: Vec<Vec<u8>> = vec![vec![]];
    let mut frontier: Vec<Vec<u8>> = vec![vec![]];
    for _ in 0..maxlen {
        let mut next = vec![];
        for s in &frontier {
            for c in 0..alpha {
                let mut t = s.clone();
                t.push(c);
                next.push(t);
            }
        }
        out.extend(next.iter().cloned());
        frontier = next;
    }
    out
}

/// C09: a shared 7-gram planted at every (offset in a, offset in b); near misses; random
pub fn drive_sub(a: &Args, thorough: bool, n_random: usize) {
    let mut sh = Shards::new(&a.out, "cmp_sub", a.shards);
    let mut rng = Rng::new(a.seed ^ 0x5555);
    let mut n = 0u64;
    let mut pos = 0u64;
    let lens: &[usize] = if thorough { &[7, 8, 13, 14, 15, 32, 63, 64] } else { &[7, 8, 14, 15, 64] };
    for &la in lens {
        for &lb in lens {
            let step_a = if thorough || la <= 15 { 1 } else { 3 };
            let step_b = if thorough || lb <= 15 { 1 } else { 3 };
            let mut i = 0;
            while i + 7 <= la {
                sh.next_unit();
                let mut j = 0;
                while j + 7 <= lb {
                    for &keep in &[7usize, 6] {
                        // two strings over disjoint halves of the alphabet (no accidental window),
                        // then plant `keep` shared symbols
                        let alpha_a: Vec<u8> = if rng.chance(1, 3) { vec![0, 1] } else { (0..32).collect() };
                        let alpha_b: Vec<u8> = if alpha_a.len() == 2 { vec![2, 3] } else { (32..64).collect() };
                        let mut x = rand_bh(&mut rng, la, &alpha_a, 3);
                        let mut y = rand_bh(&mut rng, lb, &alpha_b, 3);
                        while x.len() < la {
                            x.push(alpha_a[0]);
                        }
                        while y.len() < lb {
                            y.push(alpha_b[0]);
                        }
                        let w: Vec<u8> = x[i..i + 7].to_vec();
                        y[j..j + keep].copy_from_slice(&w[..keep]);
                        ev_sub(&mut sh, &x, &y);
                        n += 1;
                        if keep == 7 {
                            pos += 1;
                        }
                    }
                    j += step_b;
                }
                i += step_a;
            }
        }
    }
    for _ in 0..n_random {
        sh.next_unit();
        let alpha = alphabet(&mut rng);
        let la = pick_bh_len(&mut rng, 64);
        let mr = if rng.chance(1, 2) { 3 } else { 0 };
        let x = rand_bh(&mut rng, la, &alpha, mr);
        let y = if rng.chance(1, 3) {
            let lb = pick_bh_len(&mut rng, 64);
            rand_bh(&mut rng, lb, &alpha, 0)
        } else {
            related(&mut rng, &x, 64, &alpha)
        };
        ev_sub(&mut sh, &x, &y);
        // repeated / overlapping occurrences
        if rng.chance(1, 4) && x.len() >= 7 {
            let mut z = x.clone();
            z.extend_from_slice(&x[..x.len().min(64 - x.len().min(64))]);
            z.truncate(64);
            ev_sub(&mut sh, &z, &x);
            n += 1;
        }
        n += 1;
    }
    println!("STATS {{\"sub\":{{\"pairs\":{},\"planted_positive\":{}}}}}", n, pos);
    sh.finish();
}

/// C02 block-hash level: exhaustive small scope x effective index, plus random
pub fn drive_ss(a: &Args, thorough: bool, n_random: usize) {
    let mut sh = Shards::new(&a.out, "cmp_ss", a.shards);
    let mut rng = Rng::new(a.seed ^ 0x6666);
    let mut n = 0u64;
    let (lo, hi) = if thorough { (7, 9) } else { (7, 8) };
    let strs: Vec<Vec<u8>> = all_strings(2, hi).into_iter().filter(|s| s.len() >= lo && is_norm(s)).collect();
    let idx: &[u8] = &[0, 1, 2, 3, 4, 31];
    for x in &strs {
        sh.next_unit();
        for y in &strs {
            let k = idx[(n % idx.len() as u64) as usize];
            ev_ss(&mut sh, x, y, k);
            n += 1;
        }
    }
    for _ in 0..n_random {
        sh.next_unit();
        let alpha = alphabet(&mut rng);
        let la = pick_bh_len(&mut rng, 64);
        let x = rand_bh(&mut rng, la, &alpha, 3);
        let y = cap_runs(&related(&mut rng, &x, 64, &alpha), if rng.chance(1, 2) { 3 } else { 64 });
        let k = if rng.chance(1, 2) { rng.below(6) as u8 } else { rng.below(32) as u8 };
        ev_ss(&mut sh, &x, &y, k);
        n += 1;
    }
    println!("STATS {{\"ss\":{{\"pairs\":{}}}}}", n);
    sh.finish();
}

// ------------------------------------------------------------------ C17: reuse
fn jmasks(rep: &[u64; 64]) -> String {
    let v: Vec<String> = rep
        .iter()
        .map(|&m| {
            let ps: Vec<u8> = (0..64).filter(|i| (m >> i) & 1 == 1).collect();
            jarr_u8(&ps)
        })
        .collect();
    format!("[{}]", v.join(","))
}
fn tobs(sh: &mut Shards, tid: usize, t: &FuzzyHashCompareTarget, last: Option<&H>, pool: &[H]) {
    let valid = call_bool(|| t.is_valid());
    let fresheq = match last {
        Some(h) => call_bool(|| t.full_eq(&FuzzyHashCompareTarget::from(&h.long_raw().normalize()))),
        None => call_bool(|| t.full_eq(&FuzzyHashCompareTarget::new())),
    };
    let mut eq = vec![];
    let mut cm = vec![];
    for p in pool {
        let pn: LongFuzzyHash = p.long_raw().normalize();
        eq.push(format!("{{\"h\":{},\"r\":{}}}", p.j(), call_bool(|| t.is_equiv(&pn))));
        cm.push(format!(
            "{{\"h\":{},\"r\":{},\"c\":{}}}",
            p.j(),
            call_u32(|| t.compare(&pn)),
            call_bool(|| t.is_comparison_candidate(&pn))
        ));
    }
    let b1 = t.block_hash_1();
    let b2 = t.block_hash_2();
    sh.emit(&format!(
        "{{\"ev\":\"tobs\",\"t\":{},\"valid\":{},\"fresheq\":{},\"k\":{},\"equiv\":[{}],\"cmp\":[{}],\"m1\":{},\"l1\":{},\"m2\":{},\"l2\":{},\"panics\":{}}}",
        tid, valid, fresheq, t.log_block_size(), eq.join(","), cm.join(","),
        jmasks(b1.representation()), b1.len(), jmasks(b2.representation()), b2.len(), take_panics()
    ));
}
fn pobs(sh: &mut Shards, pid: usize, p: &BlockHashPositionArray, pool: &[Vec<u8>]) {
    let mut eq = vec![];
    for s in pool {
        eq.push(format!("{{\"s\":{},\"r\":{}}}", jarr_u8(s), call_bool(|| p.is_equiv(s))));
    }
    sh.emit(&format!(
        "{{\"ev\":\"pobs\",\"p\":{},\"len\":{},\"valid\":{},\"vn\":{},\"empty\":{},\"m\":{},\"equiv\":[{}],\"panics\":{}}}",
        pid, p.len(), call_bool(|| p.is_valid()), call_bool(|| p.is_valid_and_normalized()), p.is_empty(),
        jmasks(p.representation()), eq.join(","), take_panics()
    ));
}
/// a pool of NORMALISED hashes of differing lengths and symbol sets
fn pool_hashes(rng: &mut Rng, n: usize) -> Vec<H> {
    let mut v = vec![];
    let base = rand_hash_k(rng, true, true);
    v.push(H { k: base.k, a: vec![], b: vec![] });
    for i in 0..n {
        let h = match i % 5 {
            0 => rand_hash_k(rng, true, true),
            1 => {
                let r = related_hash(rng, &base, true);
                H { k: r.k, a: cap_runs(&r.a, 3), b: cap_runs(&r.b, 3) }
            }
            2 => H { k: base.k, a: base.a.iter().rev().cloned().collect::<Vec<u8>>(), b: base.b.clone() }, // same symbols, other order
            3 => H { k: base.k, a: base.a[..base.a.len() / 2].to_vec(), b: base.b[..base.b.len() / 2].to_vec() }, // shorter
            _ => H { k: base.k, a: rand_bh(rng, 64, &(0..64).collect::<Vec<u8>>(), 3), b: rand_bh(rng, 64, &(0..64).collect::<Vec<u8>>(), 3) }, // longer, superset alphabet
        };
        v.push(H { k: h.k, a: cap_runs(&h.a, 3), b: cap_runs(&h.b, 3) });
    }
    v.push(base);
    v
}
pub fn drive_reuse(a: &Args, histories: usize, loop_len: usize) {
    let mut sh = Shards::new(&a.out, "cmp_reuse", a.shards);
    let mut rng = Rng::new(a.seed ^ 0x7777);
    let mut steps = 0u64;
    for _ in 0..histories {
        sh.next_unit();
        let pool = pool_hashes(&mut rng, 6);
        let mut t = if pool.len() % 2 == 0 || pool[1].a.len() % 2 == 0 { FuzzyHashCompareTarget::new() } else { FuzzyHashCompareTarget::default() };
        sh.emit("{\"ev\":\"tnew\",\"t\":0}");
        tobs(&mut sh, 0, &t, None, &pool[..2]);
        let len = rng.range(2, 5);
        for _ in 0..len {
            let h = rng.pick(&pool);
            let hn: LongFuzzyHash = h.long_raw().normalize();
            match rng.below(4) {
                0 => {
                    t = FuzzyHashCompareTarget::from(&hn);
                    sh.emit(&format!("{{\"ev\":\"tfrom\",\"t\":0,\"h\":{}}}", h.j()));
                }
                1 if h.b.len() <= 32 => {
                    let hs: FuzzyHash = h.short_raw().unwrap().normalize();
                    t.init_from(&hs);
                    sh.emit(&format!("{{\"ev\":\"tinit\",\"t\":0,\"h\":{},\"via\":\"short\"}}", h.j()));
                }
                2 => {
                    let d = LongDualFuzzyHash::from_raw_form(&h.long_raw());
                    t.init_from(&d);
                    sh.emit(&format!("{{\"ev\":\"tinit\",\"t\":0,\"h\":{},\"via\":\"dual\"}}", h.j()));
                }
                _ => {
                    t.init_from(&hn);
                    sh.emit(&format!("{{\"ev\":\"tinit\",\"t\":0,\"h\":{}}}", h.j()));
                }
            }
            tobs(&mut sh, 0, &t, Some(h), &pool);
            steps += 1;
        }
        // position array histories over the strings of the pool
        let strs: Vec<Vec<u8>> = pool.iter().flat_map(|h| [h.a.clone(), h.b.clone()]).collect();
        let mut p = BlockHashPositionArray::new();
        sh.emit("{\"ev\":\"pnew\",\"p\":0}");
        pobs(&mut sh, 0, &p, &strs[..3]);
        for _ in 0..rng.range(2, 5) {
            if rng.chance(1, 5) {
                p.clear();
                sh.emit("{\"ev\":\"pclear\",\"p\":0}");
            } else {
                // raw strings with runs too: a position array may hold any valid string
                let base_s: Vec<u8> = strs[rng.below(strs.len() as u64) as usize].clone();
                let s = if rng.chance(1, 3) { related(&mut rng, &base_s, 64, &[0, 1, 2]) } else { base_s };
                p.init_from(&s);
                sh.emit(&format!("{{\"ev\":\"pinit\",\"p\":0,\"s\":{}}}", jarr_u8(&s)));
            }
            pobs(&mut sh, 0, &p, &strs);
            steps += 1;
        }
    }
    // the clustering loop: one target re-initialised many times, compared with 3 others each time
    sh.next_unit();
    let mut t = FuzzyHashCompareTarget::new();
    sh.emit("{\"ev\":\"tnew\",\"t\":0}");
    let mut prev: Vec<H> = vec![];
    for i in 0..loop_len {
        if i % 200 == 0 {
            sh.next_unit();
            sh.emit("{\"ev\":\"tnew\",\"t\":0}");
            t = FuzzyHashCompareTarget::new();
        }
        let h0 = rand_hash_k(&mut rng, true, true);
        let h = if !prev.is_empty() && rng.chance(1, 2) {
            let pi = rng.below(prev.len() as u64) as usize;
            let r = related_hash(&mut rng, &prev[pi], true);
            H { k: r.k, a: cap_runs(&r.a, 3), b: cap_runs(&r.b, 3) }
        } else {
            h0
        };
        t.init_from(&h.long_raw().normalize());
        sh.emit(&format!("{{\"ev\":\"tinit\",\"t\":0,\"h\":{}}}", h.j()));
        let start = prev.len().saturating_sub(3);
        tobs(&mut sh, 0, &t, Some(&h), &prev[start..]);
        prev.push(h);
        if prev.len() > 8 {
            prev.remove(0);
        }
        steps += 1;
    }
    // position array elements: has_sequences(x, len) for every len 0..=66
    let mut xs: Vec<u64> = vec![0, u64::MAX, 1, 1 << 63, 0x5555_5555_5555_5555, 0xAAAA_AAAA_AAAA_AAAA, 0x7FFF_FFFF_FFFF_FFFF, 0xFFFF_FFFF_FFFF_FFFE];
    for r in 1..=64u32 {
        for o in [0u32, 1, 7, 31, 32, 33, 63] {
            if r + o <= 64 {
                let m = if r == 64 { u64::MAX } else { ((1u64 << r) - 1) << o };
                xs.push(m);
                xs.push(m | 1 | (1 << 63));
                if o >= 2 {
                    xs.push(m | ((1u64 << (o - 1)) - 1)); // a second, shorter run right below a gap
                }
            }
        }
    }
    for _ in 0..200 {
        xs.push(rng.next() | rng.next());
        xs.push(rng.next() & rng.next());
    }
    for (i, x) in xs.iter().enumerate() {
        if i % 40 == 0 {
            sh.next_unit();
        }
        let rs: Vec<String> = (0..=66u32).map(|l| block_hash_position_array_element::has_sequences(*x, l).to_string()).collect();
        sh.emit(&format!("{{\"ev\":\"hasseq\",\"panics\":0,\"x\":{},\"rs\":[{}],\"c4\":{}}}", jw64(*x), rs.join(","), block_hash_position_array_element::has_sequences_const::<4>(*x)));
        steps += 1;
    }
    println!("STATS {{\"reuse\":{{\"steps\":{}}}}}", steps);
    sh.finish();
}

// ------------------------------------------------------------------ C20: complete domains
pub fn drive_tables(a: &Args) {
    use ssdeep::block_size;
    let mut sh = Shards::new(&a.out, "cmp_tables", a.shards);
    // (1) the complete set of valid block sizes: sweep all 2^32 values in parallel
    let nthreads = 16u64;
    let mut handles = vec![];
    for t in 0..nthreads {
        handles.push(std::thread::spawn(move || {
            let mut found: Vec<u32> = vec![];
            let lo = (t << 32) / nthreads;
            let hi = ((t + 1) << 32) / nthreads;
            let mut x = lo;
            while x < hi {
                if block_size::is_valid(x as u32) {
                    found.push(x as u32);
                }
                x += 1;
            }
            found
        }));
    }
    let mut all: Vec<u32> = vec![];
    for h in handles {
        all.extend(h.join().unwrap());
    }
    let items: Vec<String> = all.iter().map(|&x| jw32(x)).collect();
    sh.next_unit();
    sh.emit(&format!("{{\"ev\":\"bsvalid\",\"panics\":0,\"set\":[{}],\"swept\":\"all 2^32\"}}", items.join(",")));
    // (2) logarithms: all 256 u8
    for n in 0..=255u8 {
        if n % 32 == 0 {
            sh.next_unit();
        }
        let valid = block_size::is_log_valid(n);
        let from = block_size::from_log(n);
        let (fj, back, isv) = match from {
            Some(bs) => (jw32(bs), block_size::log_from_valid(bs) as i32, block_size::is_valid(bs)),
            None => ("[-1,-1]".to_string(), -1, false),
        };
        // the canonical decimal form (through a hash object that carries this block size) and back
        let (txt, parsed, acc) = if valid {
            let h = RawFuzzyHash::new_from_internals_near_raw(n, &[], &[]);
            let t = h.to_string();
            let p = t.parse::<LongFuzzyHash>().map(|x| x.log_block_size() as i32).unwrap_or(-1);
            (jarr_u8(t.as_bytes()), p, jw32(h.block_size()))
        } else {
            ("[]".to_string(), -1, "[-1,-1]".to_string())
        };
        sh.emit(&format!("{{\"ev\":\"bslog\",\"panics\":0,\"n\":{},\"valid\":{},\"from\":{},\"back\":{},\"isvalid\":{},\"txt\":{},\"parsed\":{},\"acc\":{}}}", n, valid, fj, back, isv, txt, parsed, acc));
    }
    // (3) relations: all 31 x 31
    for x in 0..31u8 {
        sh.next_unit();
        for y in 0..31u8 {
            let r = block_size::compare_sizes(x, y);
            let rs = match r {
                ssdeep::BlockSizeRelation::NearLt => "NearLt",
                ssdeep::BlockSizeRelation::NearEq => "NearEq",
                ssdeep::BlockSizeRelation::NearGt => "NearGt",
                ssdeep::BlockSizeRelation::Far => "Far",
            };
            let ord = match block_size::cmp(x, y) {
                std::cmp::Ordering::Less => -1,
                std::cmp::Ordering::Equal => 0,
                std::cmp::Ordering::Greater => 1,
            };
            sh.emit(&format!(
                "{{\"ev\":\"bsrel\",\"panics\":0,\"a\":{},\"b\":{},\"rel\":\"{}\",\"near\":{},\"eq\":{},\"lt\":{},\"gt\":{},\"ord\":{},\"relnear\":{}}}",
                x, y, rs, block_size::is_near(x, y), block_size::is_near_eq(x, y), block_size::is_near_lt(x, y),
                block_size::is_near_gt(x, y), ord, r.is_near()
            ));
        }
    }
    // (4) raw score: all (l1, l2, d) with 7 <= l <= 64, d <= l1 + l2 - 14
    for l1 in 7..=64u8 {
        sh.next_unit();
        for l2 in 7..=64u8 {
            let rs: Vec<u64> = (0..=(l1 as u32 + l2 as u32 - 14))
                .map(|d| FuzzyHashCompareTarget::raw_score_by_edit_distance(l1, l2, d) as u64)
                .collect();
            sh.emit(&format!("{{\"ev\":\"rawscore\",\"panics\":0,\"l1\":{},\"l2\":{},\"rs\":{}}}", l1, l2, jarr_u64(&rs)));
        }
    }
    // (5) score cap: all (n, l1, l2) in 0..=31 x 0..=64 x 0..=64
    for n in 0..=31u8 {
        sh.next_unit();
        for l1 in 0..=64u8 {
            let rs: Vec<u64> = (0..=64u8)
                .map(|l2| FuzzyHashCompareTarget::score_cap_on_block_hash_comparison(n, l1, l2) as u64)
                .collect();
            sh.emit(&format!(
                "{{\"ev\":\"cap\",\"panics\":0,\"n\":{},\"l1\":{},\"rs\":{},\"border\":{}}}",
                n, l1, jarr_u64(&rs), FuzzyHashCompareTarget::LOG_BLOCK_SIZE_CAPPING_BORDER
            ));
        }
    }
    println!("STATS {{\"tables\":{{\"valid_block_sizes\":{}}}}}", all.len());
    sh.finish();
}

// ------------------------------------------------------------------ replay of recorded units
fn v_bh(v: &serde_json::Value) -> Vec<u8> {
    v.as_array().map(|a| a.iter().map(|x| x.as_u64().unwrap_or(0) as u8).collect()).unwrap_or_default()
}
fn v_hash(v: &serde_json::Value) -> H {
    H { k: v["k"].as_u64().unwrap_or(0) as u8, a: v_bh(&v["a"]), b: v_bh(&v["b"]) }
}
/// Re-execute the calls of recorded comparison events (only their inputs are read).
pub fn replay(inp: &str, out_dir: &str) {
    let mut sh = Shards::new(out_dir, "replay", 1);
    let text = std::fs::read_to_string(inp).unwrap();
    let mut reuse = FuzzyHashCompareTarget::new();
    let mut t = FuzzyHashCompareTarget::new();
    let mut tlast: Option<H> = None;
    let mut p = BlockHashPositionArray::new();
    let mut tables_done = false;
    for line in text.lines().filter(|l| !l.trim().is_empty()) {
        let e: serde_json::Value = serde_json::from_str(line).unwrap();
        match e["ev"].as_str().unwrap_or("") {
            "ed" => ev_ed(&mut sh, &v_bh(&e["a"]), &v_bh(&e["b"])),
            "sub" => ev_sub(&mut sh, &v_bh(&e["a"]), &v_bh(&e["b"])),
            "ss" => ev_ss(&mut sh, &v_bh(&e["a"]), &v_bh(&e["b"]), e["n"].as_u64().unwrap_or(0) as u8),
            "cmp" => ev_cmp(&mut sh, &mut reuse, &v_hash(&e["A"]), &v_hash(&e["B"])),
            "win" => ev_win(&mut sh, &v_hash(&e["A"])),
            "tnew" => {
                t = FuzzyHashCompareTarget::new();
                tlast = None;
                sh.emit("{\"ev\":\"tnew\",\"t\":0}");
            }
            "tfrom" => {
                let h = v_hash(&e["h"]);
                t = FuzzyHashCompareTarget::from(&h.long_raw().normalize());
                sh.emit(&format!("{{\"ev\":\"tfrom\",\"t\":0,\"h\":{}}}", h.j()));
                tlast = Some(h);
            }
            "tinit" => {
                let h = v_hash(&e["h"]);
                match e.get("via").and_then(|x| x.as_str()) {
                    Some("short") => t.init_from(&h.short_raw().unwrap().normalize()),
                    Some("dual") => t.init_from(&LongDualFuzzyHash::from_raw_form(&h.long_raw())),
                    _ => t.init_from(&h.long_raw().normalize()),
                }
                sh.emit(&format!("{{\"ev\":\"tinit\",\"t\":0,\"h\":{}}}", h.j()));
                tlast = Some(h);
            }
            "tobs" => {
                let pool: Vec<H> = e["cmp"].as_array().map(|a| a.iter().map(|x| v_hash(&x["h"])).collect()).unwrap_or_default();
                tobs(&mut sh, 0, &t, tlast.as_ref(), &pool);
            }
            "pnew" => {
                p = BlockHashPositionArray::new();
                sh.emit("{\"ev\":\"pnew\",\"p\":0}");
            }
            "pclear" => {
                p.clear();
                sh.emit("{\"ev\":\"pclear\",\"p\":0}");
            }
            "pinit" => {
                let s = v_bh(&e["s"]);
                p.init_from(&s);
                sh.emit(&format!("{{\"ev\":\"pinit\",\"p\":0,\"s\":{}}}", jarr_u8(&s)));
            }
            "pobs" => {
                let pool: Vec<Vec<u8>> = e["equiv"].as_array().map(|a| a.iter().map(|x| v_bh(&x["s"])).collect()).unwrap_or_default();
                pobs(&mut sh, 0, &p, &pool);
            }
            "bsvalid" | "bslog" | "bsrel" | "rawscore" | "cap" => {
                if !tables_done {
                    tables_done = true;
                    let a = Args { seed: 1, tier: "quick".into(), out: format!("{}/tables", out_dir), shards: 1, rest: vec![] };
                    drive_tables(&a);
                }
            }
            _ => {}
        }
    }
    sh.finish();
}
