//! Text / object drivers (C04 C05 C06 C07 C16): parse texts with all six hash types, format
//! objects, take every normalisation and dual-hash route, compare / hash / sort objects.
//! Everything the library returned is recorded; nothing is judged here.
use crate::cmp::{alphabet, cap_runs, pick_bh_len, rand_bh, related, H};
use crate::util::*;
use ssdeep::{DualFuzzyHash, FuzzyHash, LongDualFuzzyHash, LongFuzzyHash, LongRawFuzzyHash, RawFuzzyHash};
use std::hash::{Hash, Hasher};
use std::panic::{catch_unwind, AssertUnwindSafe};

pub const SENTINEL: usize = 4242;
#[cfg(feature = "alloc")]
macro_rules! raw_form_string {
    ($d:expr) => {
        $d.to_raw_form_string()
    };
}
#[cfg(not(feature = "alloc"))]
macro_rules! raw_form_string {
    ($d:expr) => {
        $d.to_raw_form().to_string()
    };
}
#[cfg(feature = "alloc")]
macro_rules! normalized_string {
    ($d:expr) => {
        $d.to_normalized_string()
    };
}
#[cfg(not(feature = "alloc"))]
macro_rules! normalized_string {
    ($d:expr) => {
        $d.to_normalized().to_string()
    };
}

struct RecHasher(Vec<u8>);
impl Hasher for RecHasher {
    fn finish(&self) -> u64 {
        0
    }
    fn write(&mut self, bytes: &[u8]) {
        self.0.extend_from_slice(bytes);
    }
}
fn hash_stream<T: Hash>(x: &T) -> Vec<u8> {
    let mut h = RecHasher(vec![]);
    x.hash(&mut h);
    h.0
}
fn default_hash<T: Hash>(x: &T) -> u64 {
    let mut h = std::collections::hash_map::DefaultHasher::new();
    x.hash(&mut h);
    h.finish()
}
fn jh(k: u8, a: &[u8], b: &[u8]) -> String {
    format!("{{\"k\":{},\"a\":{},\"b\":{}}}", k, jarr_u8(a), jarr_u8(b))
}
fn origin_str(e: &ssdeep::ParseError) -> &'static str {
    use ssdeep::ParseErrorInfo;
    match e.origin() {
        ssdeep::ParseErrorOrigin::BlockSize => "BlockSize",
        ssdeep::ParseErrorOrigin::BlockHash1 => "BlockHash1",
        ssdeep::ParseErrorOrigin::BlockHash2 => "BlockHash2",
    }
}
fn kind_str(e: &ssdeep::ParseError) -> String {
    use ssdeep::ParseErrorInfo;
    format!("{:?}", e.kind())
}
fn off_of(e: &ssdeep::ParseError) -> usize {
    use ssdeep::ParseErrorInfo;
    e.offset()
}

// ------------------------------------------------------------------ C04: parse with all types
fn parse_record(
    ok: &str, k: u8, a: &[u8], b: &[u8], valid: bool, idx: usize, fb: &str, fs: &str, txt: &[u8],
    ntxt: &[u8], nvalid: bool, origin: &str, kind: &str, off: usize,
) -> String {
    format!(
        "{{\"ok\":\"{}\",\"k\":{},\"a\":{},\"b\":{},\"valid\":{},\"idx\":{},\"fb\":\"{}\",\"fs\":\"{}\",\"txt\":{},\"ntxt\":{},\"nvalid\":{},\"origin\":\"{}\",\"kind\":\"{}\",\"off\":{}}}",
        ok, k, jarr_u8(a), jarr_u8(b), valid, idx.min(1 << 30), fb, fs, jarr_u8(txt), jarr_u8(ntxt), nvalid, origin, kind, off.min(1 << 30)
    )
}
/// the error's Display text, next to the accessors it is built from
fn with_msg(mut rec: String, msg: &str) -> String {
    rec.pop();
    rec.push_str(&format!(",\"msg\":\"{}\"}}", msg.replace('\\', "\\\\").replace('"', "\\\"")));
    rec
}
macro_rules! parse_plain {
    ($T:ty, $t:expr) => {{
        let t: &[u8] = $t;
        let mut idx = SENTINEL;
        let w = catch_unwind(AssertUnwindSafe(|| <$T>::from_bytes_with_last_index(t, &mut idx)));
        let fb = catch_unwind(|| <$T>::from_bytes(t));
        let fs = match std::str::from_utf8(t) {
            Ok(s) => Some(catch_unwind(|| s.parse::<$T>())),
            Err(_) => None,
        };
        match w {
            Err(_) => parse_record("panic", 0, &[], &[], false, idx, "na", "na", &[], &[], false, "", "", 0),
            Ok(Ok(h)) => {
                let fbs = match &fb {
                    Ok(Ok(h2)) if h2.full_eq(&h) && *h2 == h => "same",
                    Err(_) => "panic",
                    _ => "diff",
                };
                let fss = match &fs {
                    None => "na",
                    Some(Ok(Ok(h2))) if h2.full_eq(&h) => "same",
                    Some(Err(_)) => "panic",
                    _ => "diff",
                };
                let txt = h.to_string();
                parse_record("ok", h.log_block_size(), h.block_hash_1(), h.block_hash_2(), h.is_valid(), idx, fbs, fss, txt.as_bytes(), &[], false, "", "", 0)
            }
            Ok(Err(e)) => {
                let fbs = match &fb {
                    Ok(Err(e2)) if *e2 == e => "same",
                    Err(_) => "panic",
                    _ => "diff",
                };
                let fss = match &fs {
                    None => "na",
                    Some(Ok(Err(e2))) if *e2 == e => "same",
                    Some(Err(_)) => "panic",
                    _ => "diff",
                };
                with_msg(parse_record("err", 0, &[], &[], false, idx, fbs, fss, &[], &[], false, origin_str(&e), &kind_str(&e), off_of(&e)), &e.to_string())
            }
        }
    }};
}
macro_rules! parse_dual {
    ($T:ty, $t:expr) => {{
        let t: &[u8] = $t;
        let mut idx = SENTINEL;
        let w = catch_unwind(AssertUnwindSafe(|| <$T>::from_bytes_with_last_index(t, &mut idx)));
        let fb = catch_unwind(|| <$T>::from_bytes(t));
        let fs = match std::str::from_utf8(t) {
            Ok(s) => Some(catch_unwind(|| s.parse::<$T>())),
            Err(_) => None,
        };
        match w {
            Err(_) => parse_record("panic", 0, &[], &[], false, idx, "na", "na", &[], &[], false, "", "", 0),
            Ok(Ok(h)) => {
                let fbs = match &fb {
                    Ok(Ok(h2)) if *h2 == h => "same",
                    Err(_) => "panic",
                    _ => "diff",
                };
                let fss = match &fs {
                    None => "na",
                    Some(Ok(Ok(h2))) if *h2 == h => "same",
                    Some(Err(_)) => "panic",
                    _ => "diff",
                };
                // the observations themselves may panic on a corrupted object: that is data too
                let obs = catch_unwind(AssertUnwindSafe(|| {
                    let raw = h.to_raw_form();
                    (raw.log_block_size(), raw.block_hash_1().to_vec(), raw.block_hash_2().to_vec(), h.is_valid(), h.to_raw_form().to_string(), h.to_normalized().to_string(), h.as_normalized().is_valid())
                }));
                match obs {
                    Ok((k, a, b, valid, txt, ntxt, nvalid)) => parse_record("ok", k, &a, &b, valid, idx, fbs, fss, txt.as_bytes(), ntxt.as_bytes(), nvalid, "", "", 0),
                    Err(_) => parse_record("ok-but-observation-panicked", 0, &[], &[], h.is_valid(), idx, fbs, fss, &[], &[], false, "", "", 0),
                }
            }
            Ok(Err(e)) => {
                let fbs = match &fb {
                    Ok(Err(e2)) if *e2 == e => "same",
                    Err(_) => "panic",
                    _ => "diff",
                };
                let fss = match &fs {
                    None => "na",
                    Some(Ok(Err(e2))) if *e2 == e => "same",
                    Some(Err(_)) => "panic",
                    _ => "diff",
                };
                with_msg(parse_record("err", 0, &[], &[], false, idx, fbs, fss, &[], &[], false, origin_str(&e), &kind_str(&e), off_of(&e)), &e.to_string())
            }
        }
    }};
}
pub fn ev_parse(sh: &mut Shards, t: &[u8]) {
    let rs = parse_plain!(RawFuzzyHash, t);
    let rl = parse_plain!(LongRawFuzzyHash, t);
    let ns = parse_plain!(FuzzyHash, t);
    let nl = parse_plain!(LongFuzzyHash, t);
    let ds = parse_dual!(DualFuzzyHash, t);
    let dl = parse_dual!(LongDualFuzzyHash, t);
    sh.emit(&format!(
        "{{\"ev\":\"parse\",\"t\":{},\"r\":{{\"RS\":{},\"RL\":{},\"NS\":{},\"NL\":{},\"DS\":{},\"DL\":{}}}}}",
        jarr_u8(t), rs, rl, ns, nl, ds, dl
    ));
}

// text builders
const B64: &[u8; 64] = b"ABCDEFGHIJKLMNOPQRSTUVWXYZabcdefghijklmnopqrstuvwxyz0123456789+/";
pub fn enc(v: &[u8]) -> Vec<u8> {
    v.iter().map(|&x| B64[(x & 63) as usize]).collect()
}
fn runs_text(rng: &mut Rng, nruns: usize, menu: &[usize]) -> Vec<u8> {
    let mut v = vec![];
    let mut prev = 255u8;
    for _ in 0..nruns {
        let mut c = rng.below(64) as u8;
        while c == prev {
            c = rng.below(64) as u8;
        }
        prev = c;
        let n = *rng.pick(menu);
        for _ in 0..n {
            v.push(B64[c as usize]);
        }
    }
    v
}
fn bs_text(rng: &mut Rng) -> Vec<u8> {
    match rng.below(12) {
        0 => b"".to_vec(),
        1 => b"0".to_vec(),
        2 => format!("0{}", 3u64 << rng.below(31)).into_bytes(),
        3 => b"4294967295".to_vec(),
        4 => b"4294967296".to_vec(),
        5 => b"12345678901234567890".to_vec(),
        6 => format!("{}", (3u64 << rng.below(31)) + 1).into_bytes(),
        7 => b"6442450944".to_vec(), // 3 * 2^31
        8 => format!("{}", rng.below(100000)).into_bytes(),
        _ => format!("{}", 3u64 << rng.below(31)).into_bytes(),
    }
}
pub fn structured_text(rng: &mut Rng) -> Vec<u8> {
    let menu: &[usize] = &[0, 1, 3, 4, 7, 29, 30, 31, 32, 33, 34, 35, 36, 61, 62, 63, 64, 65, 66, 67, 68, 100, 200];
    let small: &[usize] = &[0, 1, 2, 3, 4, 5, 7, 9];
    let mut t = bs_text(rng);
    t.push(b':');
    let m1: &[usize] = if rng.chance(1, 2) { menu } else { small };
    let m2: &[usize] = if rng.chance(1, 2) { menu } else { small };
    let nr1 = rng.range(0, 3);
    t.extend(runs_text(rng, nr1, m1));
    t.push(if rng.chance(1, 20) { b',' } else { b':' });
    let nr2 = rng.range(0, 3);
    t.extend(runs_text(rng, nr2, m2));
    match rng.below(6) {
        0 => t.push(b','),
        1 => t.extend_from_slice(b",x:y,\"file name\""),
        2 => t.push(b':'),
        3 => t.push(b'!'),
        _ => {}
    }
    t
}
pub fn border_texts() -> Vec<Vec<u8>> {
    let mut out = vec![];
    for runlen in (28..=40).chain(60..=72).chain([100, 130, 200]) {
        for pre in 0..=3usize {
            for field in 0..2 {
                let mut bh = vec![];
                for i in 0..pre {
                    bh.push(B64[1 + i]);
                }
                for _ in 0..runlen {
                    bh.push(b'A');
                }
                let mut t = b"3:".to_vec();
                if field == 0 {
                    t.extend(&bh);
                    t.push(b':');
                } else {
                    t.push(b':');
                    t.extend(&bh);
                }
                out.push(t);
            }
        }
    }
    out
}
/// block hashes whose length AFTER run collapsing is exactly the capacity (and one below / above),
/// with one run of 1..20 symbols at the start, in the middle or at the end: the border between
/// "fits after normalisation" and "too long" for every position of the run
pub fn capacity_texts() -> Vec<Vec<u8>> {
    let mut out = vec![];
    for &cap in &[32usize, 64] {
        for field in 0..2 {
            for n in [cap - 1, cap, cap + 1] {
                for &r in &[1usize, 2, 3, 4, 5, 8, 20] {
                    for pos in 0..3 {
                        let d = n - r.min(3);
                        let filler: Vec<u8> = (0..d).map(|i| B64[(i * 7 + 3) % 64]).collect();
                        let at = match pos {
                            0 => 0,
                            1 => d / 2,
                            _ => d,
                        };
                        // a run symbol different from both neighbours
                        let mut c = b'A';
                        for cand in B64.iter() {
                            let left = if at > 0 { filler[at - 1] } else { 0 };
                            let right = if at < d { filler[at] } else { 0 };
                            if *cand != left && *cand != right {
                                c = *cand;
                                break;
                            }
                        }
                        let mut bh = filler[..at].to_vec();
                        bh.extend(std::iter::repeat(c).take(r));
                        bh.extend_from_slice(&filler[at..]);
                        let mut t = b"6:".to_vec();
                        if field == 0 {
                            t.extend(&bh);
                            t.extend_from_slice(b":xyz");
                        } else {
                            t.extend_from_slice(b"xyz:");
                            t.extend(&bh);
                        }
                        out.push(t.clone());
                        t.extend_from_slice(b",f");
                        out.push(t);
                    }
                }
            }
        }
    }
    out
}
/// block size fields that do not fit 32 bits but are congruent to a valid block size modulo 2^32
/// (or modulo a power of ten times 2^32): a wrapping accumulator would accept them
pub fn wrap_texts() -> Vec<Vec<u8>> {
    let mut out = vec![];
    for n in 0..31u32 {
        let v = 3u128 << n;
        for m in [1u128, 2, 3, 5, 10, 100, 1 << 32, (1 << 32) + 1] {
            out.push(format!("{}:abc:def", v + (m << 32)).into_bytes());
        }
        // digits of 2^32 (and of 2^32 * 10^j) followed by the digits of the valid size
        out.push(format!("4294967296{}:abc:def", v).into_bytes());
        out.push(format!("4294967296{:010}:abc:def", v).into_bytes());
        out.push(format!("8589934592{:03}:abc:def", v % 1000).into_bytes());
    }
    out
}
pub fn mutated_text(rng: &mut Rng) -> Vec<u8> {
    let inject: &[u8] = &[b':', b',', b'!', b' ', 0x80, 0xff, 0, b'=', b'-', b'A', b'/', b'+', b'0', b'9'];
    let mut t: Vec<u8> = if rng.chance(1, 3) {
        let len = rng.range(0, 3000);
        let data: Vec<u8> = (0..len).map(|_| rng.next() as u8).collect();
        let mut g = ssdeep::Generator::new();
        g.update(&data);
        if rng.chance(1, 2) { g.finalize().unwrap().to_string().into_bytes() } else { g.finalize_without_truncation().unwrap().to_string().into_bytes() }
    } else {
        let al = alphabet(rng);
        let la = pick_bh_len(rng, 64);
        let cap_b = if rng.chance(1, 2) { 64 } else { 32 };
        let lb = pick_bh_len(rng, cap_b);
        let mut t = format!("{}:", 3u64 << rng.below(31)).into_bytes();
        t.extend(enc(&rand_bh(rng, la, &al, 0)));
        t.push(b':');
        t.extend(enc(&rand_bh(rng, lb, &al, 0)));
        if rng.chance(1, 4) {
            t.extend_from_slice(b",name");
        }
        t
    };
    for _ in 0..rng.range(0, 3) {
        match rng.below(4) {
            0 if !t.is_empty() => {
                let i = rng.range(0, t.len() - 1);
                t.remove(i);
            }
            1 => {
                let i = rng.range(0, t.len());
                t.insert(i, *rng.pick(inject));
            }
            2 if !t.is_empty() => {
                let i = rng.range(0, t.len() - 1);
                t[i] = *rng.pick(inject);
            }
            3 if !t.is_empty() => {
                let i = rng.range(0, t.len());
                t.truncate(i);
            }
            _ => {}
        }
    }
    t
}
/// long texts: runs and offsets beyond what fits 8 and 16 bits, in each field and in the
/// ignored tail after the comma; an error placed far into the text
pub fn long_texts(thorough: bool) -> Vec<Vec<u8>> {
    let lens: &[usize] = if thorough { &[254, 255, 256, 257, 258, 511, 512, 513, 1000, 65534, 65535, 65536, 65537, 70000, 131072] } else { &[255, 256, 257, 300, 65535, 65536, 65537] };
    let mut out = vec![];
    for &ln in lens {
        let run = vec![b'A'; ln];
        let alt: Vec<u8> = (0..ln).map(|i| B64[(i / 3) % 64]).collect(); // normalised already, too long
        out.extend([
            [b"3:".as_ref(), &run, b":"].concat(),
            [b"3::".as_ref(), &run].concat(),
            [b"3:".as_ref(), &run, b":", &run, b",", &run].concat(),
            [b"3:AB:CD,".as_ref(), &run, b":!"].concat(),
            [b"3:".as_ref(), &run, b"!"].concat(),
            [b"3:".as_ref(), &run, b":", &run, b"!"].concat(),
            [b"3:".as_ref(), &alt, b":"].concat(),
            [b"3:ABC:".as_ref(), &run, b"BCD", &run, b"E"].concat(),
            [b"6:x".as_ref(), &run, b"y:", &vec![b'B'; ln], b"z"].concat(),
            [b"3".as_ref(), &vec![b'0'; ln], b":A:B"].concat(),
        ]);
    }
    out
}
pub fn drive_parse(a: &Args, thorough: bool) {
    let mut sh = Shards::new(&a.out, "obj_parse", a.shards);
    let mut rng = Rng::new(a.seed ^ 0x8888);
    let mut n = 0u64;
    let mut accepted_shapes = 0u64;
    // (a) all texts up to length L over a small byte alphabet
    let alpha: [u8; 11] = [b'3', b'6', b'1', b'0', b'9', b':', b',', b'A', b'/', b'!', 0x80];
    let maxlen = if thorough { 5 } else { 4 };
    let mut frontier: Vec<Vec<u8>> = vec![vec![]];
    ev_parse(&mut sh, &[]);
    for _ in 0..maxlen {
        let mut next = vec![];
        for s in &frontier {
            for &c in &alpha {
                let mut t = s.clone();
                t.push(c);
                if n % 500 == 0 {
                    sh.next_unit();
                }
                ev_parse(&mut sh, &t);
                n += 1;
                next.push(t);
            }
        }
        frontier = next;
    }
    // (b) structured: spelling class x run-built block hashes x terminators
    let reps = if thorough { 400000 } else { 5000 };
    for i in 0..reps {
        if i % 100 == 0 {
            sh.next_unit();
        }
        let t = structured_text(&mut rng);
        ev_parse(&mut sh, &t);
        n += 1;
        accepted_shapes += 1;
    }
    // (b') the families at the capacity borders, deterministically: one run of every length 60..72
    //      (and 28..40 for block hash 2) alone and after 1..3 other characters
    for (i, t) in border_texts().iter().chain(capacity_texts().iter()).chain(wrap_texts().iter()).enumerate() {
        if i % 8 == 0 {
            sh.next_unit();
        }
        ev_parse(&mut sh, t);
        n += 1;
    }
    // (b'') long texts: runs and offsets beyond what fits 8 and 16 bits
    for t in long_texts(thorough) {
        sh.next_unit();
        ev_parse(&mut sh, &t);
        n += 1;
    }
    // (c) byte-level mutations of accepted texts (incl. generator output)
    let reps = if thorough { 600000 } else { 8000 };
    for i in 0..reps {
        if i % 100 == 0 {
            sh.next_unit();
        }
        let t = mutated_text(&mut rng);
        ev_parse(&mut sh, &t);
        n += 1;
    }
    println!("STATS {{\"parse\":{{\"texts\":{},\"structured\":{}}}}}", n, accepted_shapes);
    sh.finish();
}

// ------------------------------------------------------------------ C05: formatting
macro_rules! fmt_event {
    ($T:ty, $tn:expr, $sh:expr, $h:expr, $all_bufs:expr) => {{
        let obj: $T = <$T>::new_from_internals_near_raw($h.k, &$h.a, &$h.b);
        let txt = obj.to_string();
        let disp = format!("{}", obj);
        #[cfg(feature = "alloc")]
        let from: String = String::from(obj);
        #[cfg(not(feature = "alloc"))]
        let from: String = disp.clone();
        let len = obj.len_in_str();
        let max = <$T>::MAX_LEN_IN_STR;
        let mut bufs = vec![];
        let lens: Vec<usize> = if $all_bufs { (0..=(ssdeep::MAX_LEN_IN_STR + 8)).collect() } else { vec![0, len.saturating_sub(1), len, len + 1, max, ssdeep::MAX_LEN_IN_STR + 8] };
        for n in lens {
            let mut buf = vec![0xA5u8; n];
            match catch_unwind(AssertUnwindSafe(|| obj.store_into_bytes(&mut buf))) {
                Ok(Ok(w)) => bufs.push(format!("{{\"n\":{},\"r\":{},\"out\":{},\"untouched\":false}}", n, w, jarr_u8(&buf[..w.min(n)]))),
                Ok(Err(_)) => bufs.push(format!("{{\"n\":{},\"r\":-1,\"out\":[],\"untouched\":{}}}", n, buf.iter().all(|&x| x == 0xA5))),
                Err(_) => bufs.push(format!("{{\"n\":{},\"r\":-2,\"out\":[],\"untouched\":false}}", n)),
            }
        }
        let back = match txt.parse::<$T>() {
            Ok(o) => o == obj && o.full_eq(&obj),
            Err(_) => false,
        };
        $sh.emit(&format!(
            "{{\"ev\":\"fmt\",\"T\":\"{}\",\"h\":{},\"txt\":{},\"disp\":{},\"from\":{},\"len\":{},\"max\":{},\"gmax\":{},\"bufs\":[{}],\"back\":{}}}",
            $tn, jh(obj.log_block_size(), obj.block_hash_1(), obj.block_hash_2()), jarr_u8(txt.as_bytes()), jarr_u8(disp.as_bytes()),
            jarr_u8(from.as_bytes()), len, max, ssdeep::MAX_LEN_IN_STR, bufs.join(","), back
        ));
    }};
}
pub fn ev_fmt(sh: &mut Shards, h: &H, all_bufs: bool) {
    let norm = crate::cmp::H { k: h.k, a: cap_runs(&h.a, 3), b: cap_runs(&h.b, 3) };
    fmt_event!(LongRawFuzzyHash, "RL", sh, h, all_bufs);
    fmt_event!(LongFuzzyHash, "NL", sh, &norm, all_bufs);
    if h.b.len() <= 32 {
        fmt_event!(RawFuzzyHash, "RS", sh, h, all_bufs);
        fmt_event!(FuzzyHash, "NS", sh, &norm, all_bufs);
    }
}
pub fn drive_fmt(a: &Args, thorough: bool) {
    let mut sh = Shards::new(&a.out, "obj_fmt", a.shards);
    let mut rng = Rng::new(a.seed ^ 0x9999);
    let mut n = 0u64;
    let lens = [0usize, 1, 31, 32, 33, 63, 64];
    for k in 0..31u8 {
        sh.next_unit();
        for &la in &lens {
            for &lb in &lens {
                let al = alphabet(&mut rng);
                let h = H { k, a: rand_bh(&mut rng, la, &al, 0), b: rand_bh(&mut rng, lb, &al, 0) };
                ev_fmt(&mut sh, &h, n % 97 == 0);
                n += 1;
            }
        }
    }
    for _ in 0..(if thorough { 400000 } else { 1000 }) {
        sh.next_unit();
        let al = alphabet(&mut rng);
        let la = pick_bh_len(&mut rng, 64);
        let lb = pick_bh_len(&mut rng, 64);
        let h = H { k: rng.below(31) as u8, a: rand_bh(&mut rng, la, &al, 0), b: rand_bh(&mut rng, lb, &al, 0) };
        ev_fmt(&mut sh, &h, n % 97 == 0);
        n += 1;
    }
    println!("STATS {{\"fmt\":{{\"objects\":{}}}}}", n);
    sh.finish();
}

// ------------------------------------------------------------------ C06: normalisation routes
macro_rules! route_obj {
    ($v:expr, $name:expr, $e:expr) => {{
        match catch_unwind(AssertUnwindSafe(|| {
            let o = $e;
            format!("{{\"k\":{},\"a\":{},\"b\":{},\"valid\":{},\"isn\":{}}}", o.log_block_size(), jarr_u8(o.block_hash_1()), jarr_u8(o.block_hash_2()), o.is_valid(), o.is_normalized())
        })) {
            Ok(s) => $v.push(($name.to_string(), s)),
            Err(_) => $v.push(($name.to_string(), "{\"k\":-1,\"a\":[],\"b\":[],\"valid\":false,\"isn\":false}".to_string())),
        }
    }};
}
/// for a LONG raw hash whose block hash 2 fits the short form only after run collapsing: the routes
/// into the short normalising type (parsing the long raw text directly, narrowing after normalising)
macro_rules! short_routes {
    (true, $routes:expr, $raw:expr, $text:expr) => {{
        let n = $raw.normalize();
        if n.block_hash_2().len() <= 32 {
            route_obj!($routes, "short_parse", $text.parse::<FuzzyHash>().unwrap());
            route_obj!($routes, "short_from_bytes", FuzzyHash::from_bytes($text.as_bytes()).unwrap());
            route_obj!($routes, "short_try_from", FuzzyHash::try_from(n).unwrap());
            route_obj!($routes, "short_try_into_mut", {
                let mut d = FuzzyHash::new_from_internals_near_raw(9, &[1, 2, 3, 4, 5, 6, 7, 8], &[9u8, 10, 11, 12, 13, 14, 15, 16, 17, 18, 19, 20, 21, 22, 23, 24, 25, 26, 27, 28, 29, 30, 31, 32, 33, 34, 35, 36, 37, 38, 39, 40]);
                n.try_into_mut_short(&mut d).unwrap();
                d
            });
            route_obj!($routes, "short_dual_parse", $text.parse::<LongDualFuzzyHash>().unwrap().to_normalized());
        }
    }};
    (false, $routes:expr, $raw:expr, $text:expr) => {{}};
}
macro_rules! norm_event {
    ($R:ty, $N:ty, $D:ty, $sh:expr, $h:expr, $long:tt) => {{
        let raw: $R = <$R>::new_from_internals_near_raw($h.k, &$h.a, &$h.b);
        let text = raw.to_string();
        let mut routes: Vec<(String, String)> = vec![];
        route_obj!(routes, "normalize", raw.normalize());
        route_obj!(routes, "in_place", {
            let mut r2 = raw;
            r2.normalize_in_place();
            r2
        });
        route_obj!(routes, "clone_normalized", raw.clone_normalized());
        route_obj!(routes, "from", <$N>::from(raw));
        route_obj!(routes, "into", {
            let n: $N = raw.into();
            n
        });
        route_obj!(routes, "from_raw_form", <$N>::from_raw_form(&raw));
        route_obj!(routes, "parse", text.parse::<$N>().unwrap());
        route_obj!(routes, "from_bytes", <$N>::from_bytes(text.as_bytes()).unwrap());
        route_obj!(routes, "dual", *<$D>::from_raw_form(&raw).as_normalized());
        route_obj!(routes, "dual_to_normalized", <$D>::from(raw).to_normalized());
        route_obj!(routes, "dual_parse", text.parse::<$D>().unwrap().to_normalized());
        route_obj!(routes, "twice", raw.normalize().normalize());
        route_obj!(routes, "twice_in_place", {
            let mut n = raw.normalize();
            n.normalize_in_place();
            n
        });
        route_obj!(routes, "norm_clone_normalized", raw.normalize().clone_normalized());
        route_obj!(routes, "norm_to_raw_normalize", raw.normalize().to_raw_form().normalize());
        // in-place on an object that previously held a longer value (dirty tail)
        route_obj!(routes, "in_place_after_longer", {
            let mut r2: $R = <$R>::new_from_internals_near_raw(0, &[7u8; 64], &[9u8; 32]);
            r2 = raw;
            r2.normalize_in_place();
            r2
        });
        short_routes!($long, routes, raw, text);
        let isn_raw = raw.is_normalized();
        let unchanged = raw.normalize().to_raw_form() == raw;
        let items: Vec<String> = routes.iter().map(|(k, v)| format!("\"{}\":{}", k, v)).collect();
        $sh.emit(&format!(
            "{{\"ev\":\"norm\",\"long\":{},\"h\":{},\"routes\":{{{}}},\"isn_raw\":{},\"unchanged\":{}}}",
            $long, jh(raw.log_block_size(), raw.block_hash_1(), raw.block_hash_2()), items.join(","), isn_raw, unchanged
        ));
    }};
}
pub fn ev_norm(sh: &mut Shards, h: &H) {
    norm_event!(LongRawFuzzyHash, LongFuzzyHash, LongDualFuzzyHash, sh, h, true);
    if h.b.len() <= 32 {
        norm_event!(RawFuzzyHash, FuzzyHash, DualFuzzyHash, sh, h, false);
    }
}
/// a block hash of total length `len` with one run of `run` symbols starting at `start`,
/// distinct neighbours elsewhere
fn one_run(len: usize, start: usize, run: usize, sym: u8) -> Vec<u8> {
    let mut v = vec![];
    for i in 0..len {
        if i >= start && i < start + run {
            v.push(sym);
        } else {
            let mut c = ((i * 7 + 3) % 64) as u8;
            if c == sym {
                c = (c + 1) % 64;
            }
            v.push(c);
        }
    }
    // neighbours must differ from each other too (i*7+3 mod 64 never repeats consecutively)
    v
}
pub fn run_layouts(rng: &mut Rng, cap: usize, thorough: bool) -> Vec<Vec<u8>> {
    let mut out = vec![];
    // one run of every length at every start
    let step = if thorough { 1 } else { 3 };
    let mut start = 0;
    while start < cap {
        let mut run = 1;
        while start + run <= cap {
            out.push(one_run(cap, start, run, (start % 64) as u8));
            run += if thorough || run < 8 { 1 } else { 5 };
        }
        // the run touching the end exactly
        out.push(one_run(cap, start, cap - start, 5));
        start += step;
    }
    // two adjacent runs of different symbols; runs touching both ends; three runs
    for _ in 0..(if thorough { 600 } else { 120 }) {
        let r1 = *rng.pick(&[1usize, 2, 3, 4, 5, 7, 8, 11, 12, 29, 30]);
        let r2 = *rng.pick(&[1usize, 2, 3, 4, 5, 7, 8, 11, 12, 29, 30]);
        let r3 = *rng.pick(&[0usize, 3, 4, 5, 9]);
        let mut v = vec![];
        v.extend(std::iter::repeat(1u8).take(r1));
        if rng.chance(1, 2) {
            v.push(40);
        }
        v.extend(std::iter::repeat(2u8).take(r2));
        if rng.chance(1, 2) {
            v.push(41);
            v.push(42);
        }
        v.extend(std::iter::repeat(if rng.chance(1, 3) { 1u8 } else { 3u8 }).take(r3));
        v.truncate(cap);
        out.push(v);
    }
    out
}
pub fn drive_norm(a: &Args, thorough: bool) {
    let mut sh = Shards::new(&a.out, "obj_norm", a.shards);
    let mut rng = Rng::new(a.seed ^ 0xaaaa);
    let mut n = 0u64;
    let l64 = run_layouts(&mut rng, 64, thorough);
    let l32 = run_layouts(&mut rng, 32, thorough);
    for (i, v) in l64.iter().enumerate() {
        if i % 20 == 0 {
            sh.next_unit();
        }
        let other = &l32[i % l32.len()];
        ev_norm(&mut sh, &H { k: (i % 31) as u8, a: v.clone(), b: other.clone() });
        ev_norm(&mut sh, &H { k: (i % 31) as u8, a: other.clone(), b: v.clone() });
        n += 2;
    }
    // the text route into the normalising types is the only route that can see a run longer than a
    // raw hash can hold: long texts as parse events (the result must be the run-collapsed hash)
    for t in long_texts(thorough) {
        sh.next_unit();
        ev_parse(&mut sh, &t);
        n += 1;
    }
    // block hash 2 longer than the short capacity raw, but 31 / 32 symbols after run collapsing
    for nlen in [31usize, 32] {
        for r in [4usize, 5, 8, 20, 33] {
            for pos in 0..3 {
                sh.next_unit();
                let d = nlen - 3;
                let filler: Vec<u8> = (0..d).map(|i| ((i * 7 + 3) % 64) as u8).collect();
                let at = match pos {
                    0 => 0,
                    1 => d / 2,
                    _ => d,
                };
                let left = if at > 0 { filler[at - 1] } else { 255 };
                let right = if at < d { filler[at] } else { 255 };
                let c = (0..64u8).find(|x| *x != left && *x != right).unwrap();
                let mut b = filler[..at].to_vec();
                b.extend(std::iter::repeat(c).take(r));
                b.extend_from_slice(&filler[at..]);
                b.truncate(64);
                ev_norm(&mut sh, &H { k: (nlen + r) as u8 % 31, a: vec![1, 2, 3], b });
                n += 1;
            }
        }
    }
    for _ in 0..(if thorough { 500000 } else { 4000 }) {
        sh.next_unit();
        // geometric run lengths
        let mk = |rng: &mut Rng, cap: usize| -> Vec<u8> {
            let al = alphabet(rng);
            let mut v = vec![];
            while v.len() < cap && rng.chance(15, 16) {
                let c = *rng.pick(&al);
                let mut r = 1;
                while rng.chance(1, 2) {
                    r += 1;
                }
                if rng.chance(1, 10) {
                    r += rng.range(0, 40);
                }
                for _ in 0..r {
                    v.push(c);
                }
            }
            v.truncate(cap);
            v
        };
        let cap_b = if rng.chance(1, 2) { 64 } else { 32 };
        let h = H { k: rng.below(31) as u8, a: mk(&mut rng, 64), b: mk(&mut rng, cap_b) };
        ev_norm(&mut sh, &h);
        n += 1;
    }
    println!("STATS {{\"norm\":{{\"hashes\":{}}}}}", n);
    sh.finish();
}

// ------------------------------------------------------------------ C07: dual hashes
macro_rules! dual_event {
    ($R:ty, $N:ty, $D:ty, $sh:expr, $h:expr, $long:expr, $dirty:expr) => {{
        let raw: $R = <$R>::new_from_internals_near_raw($h.k, &$h.a, &$h.b);
        let text = raw.to_string();
        let mut objs: Vec<(String, $D)> = vec![];
        let mut failed: Vec<String> = vec![];
        macro_rules! route {
            ($name:expr, $e:expr) => {
                match catch_unwind(AssertUnwindSafe(|| $e)) {
                    Ok(o) => objs.push(($name.to_string(), o)),
                    Err(_) => failed.push($name.to_string()),
                }
            };
        }
        route!("from_raw_form", <$D>::from_raw_form(&raw));
        route!("from", <$D>::from(raw));
        route!("init_dirty", {
            let mut d: $D = <$D>::from_raw_form(&$dirty);
            d.init_from_raw_form(&raw);
            d
        });
        route!("internals", <$D>::new_from_internals(raw.block_size(), raw.block_hash_1(), raw.block_hash_2()));
        route!("internals_near_raw", <$D>::new_from_internals_near_raw(raw.log_block_size(), raw.block_hash_1(), raw.block_hash_2()));
        route!("parse", text.parse::<$D>().unwrap());
        route!("from_bytes", <$D>::from_bytes(text.as_bytes()).unwrap());
        let mut routes: Vec<String> = vec![];
        for (name, d) in &objs {
            let s = catch_unwind(AssertUnwindSafe(|| {
                let r = d.to_raw_form();
                let mut rm: $R = $dirty;
                d.into_mut_raw_form(&mut rm);
                let nn = d.to_normalized();
                let an = d.as_normalized();
                format!(
                    "{{\"valid\":{},\"raw\":{},\"rawmut\":{},\"rawmut_valid\":{},\"norm\":{},\"asnorm\":{},\"rawstr\":{},\"normstr\":{},\"disp\":{},\"isn\":{}}}",
                    d.is_valid() && r.is_valid() && nn.is_valid(),
                    jh(r.log_block_size(), r.block_hash_1(), r.block_hash_2()),
                    jh(rm.log_block_size(), rm.block_hash_1(), rm.block_hash_2()),
                    rm.is_valid() && rm.full_eq(&r),
                    jh(nn.log_block_size(), nn.block_hash_1(), nn.block_hash_2()),
                    jh(an.log_block_size(), an.block_hash_1(), an.block_hash_2()),
                    jarr_u8(raw_form_string!(d).as_bytes()),
                    jarr_u8(normalized_string!(d).as_bytes()),
                    jarr_u8(d.to_string().as_bytes()),
                    d.is_normalized()
                )
            }));
            match s {
                Ok(s) => routes.push(format!("\"{}\":{}", name, s)),
                Err(_) => failed.push(name.clone()),
            }
        }
        let mut alleq = failed.is_empty();
        let mut allcmpeq = failed.is_empty();
        let mut allhasheq = failed.is_empty();
        for (_, x) in &objs {
            for (_, y) in &objs {
                alleq &= x == y;
                allcmpeq &= x.cmp(y) == std::cmp::Ordering::Equal;
                allhasheq &= hash_stream(x) == hash_stream(y) && default_hash(x) == default_hash(y);
            }
        }
        // clearing the reverse normalisation data
        let mut d = <$D>::from_raw_form(&raw);
        d.normalize_in_place();
        let n: $N = raw.normalize();
        let nr = d.to_raw_form();
        $sh.emit(&format!(
            "{{\"ev\":\"dual\",\"long\":{},\"h\":{},\"routes\":{{{}}},\"failed\":{},\"alleq\":{},\"allcmpeq\":{},\"allhasheq\":{},\"nip_eq_fromnorm\":{},\"nip_eq_fromrawnorm\":{},\"nip_isn\":{},\"nip_valid\":{},\"nip_raw\":{}}}",
            $long, jh(raw.log_block_size(), raw.block_hash_1(), raw.block_hash_2()), routes.join(","), failed.len(), alleq, allcmpeq, allhasheq,
            d == <$D>::from_normalized(&n), d == <$D>::from_raw_form(&n.to_raw_form()), d.is_normalized(), d.is_valid(),
            jh(nr.log_block_size(), nr.block_hash_1(), nr.block_hash_2())
        ));
    }};
}
pub fn ev_dual(sh: &mut Shards, h: &H, dirty: &H) {
    let dl: LongRawFuzzyHash = LongRawFuzzyHash::new_from_internals_near_raw(dirty.k, &dirty.a, &dirty.b);
    dual_event!(LongRawFuzzyHash, LongFuzzyHash, LongDualFuzzyHash, sh, h, true, dl);
    if h.b.len() <= 32 {
        let mut db = dirty.b.clone();
        db.truncate(32);
        let ds: RawFuzzyHash = RawFuzzyHash::new_from_internals_near_raw(dirty.k, &dirty.a, &db);
        dual_event!(RawFuzzyHash, FuzzyHash, DualFuzzyHash, sh, h, false, ds);
    }
}
pub fn drive_dual(a: &Args, thorough: bool) {
    let mut sh = Shards::new(&a.out, "obj_dual", a.shards);
    let mut rng = Rng::new(a.seed ^ 0xbbbb);
    let mut n = 0u64;
    // "equal iff the raw hashes are equal": families of different raws with the same normalised part
    n += dual_families(&mut sh, &mut rng, if thorough { 2000 } else { 80 });
    let dirty = H { k: 7, a: vec![9u8; 64], b: one_run(64, 3, 40, 2) };
    let l64 = run_layouts(&mut rng, 64, thorough);
    let l32 = run_layouts(&mut rng, 32, thorough);
    // runs that together need exactly N/4 RLE symbols: 16 runs of 4 (64), 8 runs of 4 (32)
    let mut full64 = vec![];
    for i in 0..16u8 {
        full64.extend(std::iter::repeat(i).take(4));
    }
    let mut full32 = vec![];
    for i in 0..8u8 {
        full32.extend(std::iter::repeat(i + 20).take(4));
    }
    sh.next_unit();
    ev_dual(&mut sh, &H { k: 0, a: full64.clone(), b: full32.clone() }, &dirty);
    ev_dual(&mut sh, &H { k: 30, a: full64.clone(), b: full64.clone() }, &dirty);
    ev_dual(&mut sh, &H { k: 3, a: vec![1u8; 64], b: vec![2u8; 64] }, &dirty);
    ev_dual(&mut sh, &H { k: 3, a: vec![], b: vec![] }, &dirty);
    for (i, v) in l64.iter().enumerate() {
        if i % 10 == 0 {
            sh.next_unit();
        }
        let other = &l32[i % l32.len()];
        ev_dual(&mut sh, &H { k: (i % 31) as u8, a: v.clone(), b: other.clone() }, &dirty);
        if i % 3 == 0 {
            ev_dual(&mut sh, &H { k: (i % 31) as u8, a: other.clone(), b: v.clone() }, &dirty);
        }
        n += 1;
    }
    for _ in 0..(if thorough { 120000 } else { 1500 }) {
        sh.next_unit();
        let al = alphabet(&mut rng);
        let la = pick_bh_len(&mut rng, 64);
        let lb = pick_bh_len(&mut rng, 64);
        let base = rand_bh(&mut rng, la, &al, 0);
        let h = H { k: rng.below(31) as u8, a: related(&mut rng, &base, 64, &al), b: rand_bh(&mut rng, lb, &al, 0) };
        ev_dual(&mut sh, &h, &dirty);
        n += 1;
    }
    println!("STATS {{\"dual\":{{\"hashes\":{}}}}}", n);
    sh.finish();
}

// ------------------------------------------------------------------ C16: eq / hash / order
fn ord_i(o: std::cmp::Ordering) -> i32 {
    match o {
        std::cmp::Ordering::Less => -1,
        std::cmp::Ordering::Equal => 0,
        std::cmp::Ordering::Greater => 1,
    }
}
macro_rules! ord_event {
    ($T:ty, $tn:expr, $sh:expr, $x:expr, $y:expr) => {{
        let a: $T = <$T>::new_from_internals_near_raw($x.k, &$x.a, &$x.b);
        let b: $T = <$T>::new_from_internals_near_raw($y.k, &$y.a, &$y.b);
        // every other left operand reaches its value through Clone::clone_from into an object that
        // held a full-length hash before (the order must not depend on how a value got there)
        let a: $T = if ($x.a.len() + $y.a.len()) % 2 == 1 {
            let da: Vec<u8> = (0..64).map(|i| ((i * 5 + 1) % 64) as u8).collect();
            let db: Vec<u8> = (0..a.block_hash_2_as_array().len()).map(|i| ((i * 7 + 2) % 64) as u8).collect();
            let mut d: $T = <$T>::new_from_internals_near_raw(30, &da, &db);
            d.clone_from(&a);
            d
        } else {
            a
        };
        $sh.emit(&format!(
            "{{\"ev\":\"ord\",\"T\":\"{}\",\"A\":{},\"B\":{},\"eq\":{},\"ne\":{},\"cmp\":{},\"pcmp\":{},\"rcmp\":{},\"hasheq\":{},\"dhasheq\":{},\"cbs\":{},\"rel\":\"{:?}\",\"near\":[{},{},{},{}],\"len1\":{},\"len2\":{},\"arr1\":{},\"arr2\":{}}}",
            $tn, $x.j_pub(), $y.j_pub(), a == b, a != b, ord_i(a.cmp(&b)), a.partial_cmp(&b).map(ord_i).unwrap_or(9), ord_i(b.cmp(&a)),
            hash_stream(&a) == hash_stream(&b), default_hash(&a) == default_hash(&b), ord_i(a.cmp_by_block_size(&b)),
            <$T>::compare_block_sizes(&a, &b), <$T>::is_block_sizes_near(&a, &b), <$T>::is_block_sizes_near_eq(&a, &b),
            <$T>::is_block_sizes_near_lt(&a, &b), <$T>::is_block_sizes_near_gt(&a, &b),
            a.block_hash_1_len(), a.block_hash_2_len(), jarr_u8(a.block_hash_1_as_array()), jarr_u8(a.block_hash_2_as_array())
        ));
    }};
}
pub fn ev_ord(sh: &mut Shards, x: &H, y: &H, which: u64) {
    let xn = H { k: x.k, a: cap_runs(&x.a, 3), b: cap_runs(&x.b, 3) };
    let yn = H { k: y.k, a: cap_runs(&y.a, 3), b: cap_runs(&y.b, 3) };
    let short = x.b.len() <= 32 && y.b.len() <= 32;
    match which % 4 {
        0 => ord_event!(LongRawFuzzyHash, "RL", sh, x, y),
        1 => ord_event!(LongFuzzyHash, "NL", sh, &xn, &yn),
        2 if short => ord_event!(RawFuzzyHash, "RS", sh, x, y),
        3 if short => ord_event!(FuzzyHash, "NS", sh, &xn, &yn),
        _ => ord_event!(LongRawFuzzyHash, "RL", sh, x, y),
    }
}
pub fn small_domain(full: bool) -> Vec<H> {
    let syms = [0u8, 1, 63];
    let strs = |n: usize| -> Vec<Vec<u8>> {
        let mut out: Vec<Vec<u8>> = vec![vec![]];
        let mut fr: Vec<Vec<u8>> = vec![vec![]];
        for _ in 0..n {
            let mut nx = vec![];
            for s in &fr {
                for &c in &syms {
                    let mut t = s.clone();
                    t.push(c);
                    nx.push(t);
                }
            }
            out.extend(nx.iter().cloned());
            fr = nx;
        }
        out
    };
    let mut v = vec![];
    for &k in &[0u8, 1, 30] {
        for a in strs(if full { 3 } else { 2 }) {
            for b in strs(2) {
                v.push(H { k, a: a.clone(), b });
            }
        }
    }
    v
}
pub fn ev_dualord(sh: &mut Shards, fam: &[H]) {
    let objs: Vec<LongDualFuzzyHash> = fam.iter().map(|h| LongDualFuzzyHash::from_raw_form(&LongRawFuzzyHash::new_from_internals_near_raw(h.k, &h.a, &h.b))).collect();
    let mat = |f: &dyn Fn(&LongDualFuzzyHash, &LongDualFuzzyHash) -> String| -> String {
        let rows: Vec<String> = objs.iter().map(|x| format!("[{}]", objs.iter().map(|y| f(x, y)).collect::<Vec<_>>().join(","))).collect();
        format!("[{}]", rows.join(","))
    };
    let famj: Vec<String> = fam.iter().map(|h| h.j_pub()).collect();
    sh.emit(&format!(
        "{{\"ev\":\"dualord\",\"fam\":[{}],\"m\":{},\"m2\":{},\"eq\":{},\"heq\":{}}}",
        famj.join(","),
        mat(&|x, y| ord_i(x.cmp(y)).to_string()),
        mat(&|x, y| ord_i(x.partial_cmp(y).unwrap()).to_string()),
        mat(&|x, y| (x == y).to_string()),
        mat(&|x, y| (hash_stream(x) == hash_stream(y)).to_string())
    ));
}
/// families of raw hashes sharing one normalised part (different run lengths), plus the normalised
/// hash itself, a duplicate and sometimes a member with another normalised part: full matrices of
/// cmp / partial_cmp / == / Hash over their dual hashes ("equal iff the raw hashes are equal")
/// deterministic "ladders": (1) every block size index once, block hash contents running AGAINST
/// the block size order (so any key that loses part of the index shows); (2) one long string changed
/// at one position per member, the remainder running against that change (so any comparison that
/// looks at a bounded prefix, or skips a position, shows)
pub fn ladders(rng: &mut Rng) -> Vec<Vec<H>> {
    let mut out = vec![];
    for dir in 0..2u8 {
        let mut fam = vec![];
        for k in 0..31u8 {
            let c = if dir == 0 { 63 - 2 * k } else { 2 * k };
            let b: Vec<u8> = (0..rng.range(0, 5)).map(|_| rng.below(64) as u8).collect();
            fam.push(H { k, a: vec![c, c, (c + 1) % 64, 7], b });
        }
        out.push(fam);
    }
    // single runs of neighbouring lengths: the dual forms need up to 16 RLE symbols and two
    // neighbours share all but the last one or two of them
    for which in 0..2u8 {
        let mut fam = vec![];
        for ln in (4usize..=12).chain(30..=48).chain(58..=64) {
            let run = vec![9u8; ln];
            fam.push(if which == 0 { H { k: 7, a: run, b: vec![1, 2] } } else { H { k: 7, a: vec![1, 2], b: run } });
        }
        out.push(fam);
    }
    for which in 0..2u8 {
        let cap = if which == 0 { 64 } else { 32 };
        let base: Vec<u8> = (0..cap).map(|i| (10 + (i * 7) % 40) as u8).collect();
        let mut fam = vec![H { k: 5, a: if which == 0 { base.clone() } else { vec![1, 2, 3] }, b: if which == 1 { base.clone() } else { vec![4] } }];
        for &p in &[0usize, 1, 5, 9, 10, 11, 15, 16, 20, 31, 32, 33, 47, 62, 63] {
            if p >= cap {
                continue;
            }
            for up in [true, false] {
                let mut v = base.clone();
                v[p] = if up { v[p] + 1 } else { v[p] - 1 };
                for q in (p + 1)..cap {
                    v[q] = if up { 0 } else { 63 }; // the tail pulls the other way
                }
                fam.push(if which == 0 { H { k: 5, a: v, b: vec![4] } } else { H { k: 5, a: vec![1, 2, 3], b: v } });
            }
        }
        out.push(fam);
    }
    out
}
pub fn dual_families(sh: &mut Shards, rng: &mut Rng, count: usize) -> u64 {
    let mut n = 0u64;
    for fam in ladders(rng) {
        sh.next_unit();
        ev_dualord(sh, &fam);
        n += 1;
    }
    for f in 0..count {
        sh.next_unit();
        let al = alphabet(rng);
        let la = rng.range(3, 24);
        let base_a = cap_runs(&rand_bh(rng, la, &al, 0), 3);
        let base_b = cap_runs(&rand_bh(rng, 12, &al, 0), 3);
        let mut fam: Vec<H> = vec![];
        let k = rng.below(31) as u8;
        fam.push(H { k, a: base_a.clone(), b: base_b.clone() });
        for _ in 0..rng.range(3, 9) {
            // same normalised part, different run lengths: extend runs of 3
            let ext = |rng: &mut Rng, v: &[u8], cap: usize| -> Vec<u8> {
                let mut o = vec![];
                let mut i = 0;
                while i < v.len() {
                    o.push(v[i]);
                    if i >= 2 && v[i] == v[i - 1] && v[i] == v[i - 2] && rng.chance(2, 3) {
                        for _ in 0..rng.range(1, 9) {
                            if o.len() + (v.len() - i) < cap {
                                o.push(v[i]);
                            }
                        }
                    }
                    i += 1;
                }
                o
            };
            let m = if f % 3 == 1 && rng.chance(1, 3) {
                // another block size (any distance, incl. +-16), same or related contents
                let k2 = match rng.below(4) {
                    0 => k ^ 16,
                    1 => (k + 1) % 31,
                    _ => rng.below(31) as u8,
                } % 31;
                H { k: k2, a: if rng.chance(1, 2) { base_a.clone() } else { related(rng, &base_a, 64, &al) }, b: base_b.clone() }
            } else if f % 5 == 0 && rng.chance(1, 4) {
                H { k, a: related(rng, &base_a, 64, &al), b: base_b.clone() } // a different normalised part
            } else {
                H { k, a: ext(rng, &base_a, 64), b: ext(rng, &base_b, 64) }
            };
            fam.push(m);
        }
        if rng.chance(1, 2) {
            let dup = H { k: fam[1].k, a: fam[1].a.clone(), b: fam[1].b.clone() };
            fam.push(dup);
        }
        ev_dualord(sh, &fam);
        n += 1;
    }
    n
}
pub fn drive_ord(a: &Args, thorough: bool) {
    let mut sh = Shards::new(&a.out, "obj_ord", a.shards);
    let mut rng = Rng::new(a.seed ^ 0xcccc);
    let mut n = 0u64;
    let dom = small_domain(thorough);
    // all ordered pairs of the domain
    for (i, x) in dom.iter().enumerate() {
        if i % 4 == 0 {
            sh.next_unit();
        }
        for (j, y) in dom.iter().enumerate() {
            if !thorough && (i * 31 + j * 17) % 3 != 0 && i != j {
                continue;
            }
            ev_ord(&mut sh, x, y, n);
            n += 1;
        }
    }
    // sort() of the whole domain (raw long type) and of a shuffled normalised subset
    {
        sh.next_unit();
        let mut objs: Vec<LongRawFuzzyHash> = dom.iter().map(|h| LongRawFuzzyHash::new_from_internals_near_raw(h.k, &h.a, &h.b)).collect();
        for i in (1..objs.len()).rev() {
            let j = rng.range(0, i);
            objs.swap(i, j);
        }
        let inp: Vec<String> = objs.iter().map(|o| jh(o.log_block_size(), o.block_hash_1(), o.block_hash_2())).collect();
        objs.sort();
        let out: Vec<String> = objs.iter().map(|o| jh(o.log_block_size(), o.block_hash_1(), o.block_hash_2())).collect();
        sh.emit(&format!("{{\"ev\":\"sort\",\"T\":\"RL\",\"in\":[{}],\"out\":[{}]}}", inp.join(","), out.join(",")));
    }
    // random full-length pairs, incl. pairs that differ only by trailing symbol-0 characters
    for _ in 0..(if thorough { 1500000 } else { 6000 }) {
        sh.next_unit();
        let al = alphabet(&mut rng);
        let la = pick_bh_len(&mut rng, 64);
        let cap_b = if rng.chance(1, 2) { 64 } else { 32 };
            let lb = pick_bh_len(&mut rng, cap_b);
        let x = H { k: rng.below(31) as u8, a: rand_bh(&mut rng, la, &al, 0), b: rand_bh(&mut rng, lb, &al, 0) };
        let mut y = H { k: x.k, a: x.a.clone(), b: x.b.clone() };
        match rng.below(7) {
            0 => {
                while y.a.len() < 64 && rng.chance(2, 3) {
                    y.a.push(0);
                }
            }
            1 => {
                while y.b.len() < 32 && rng.chance(2, 3) {
                    y.b.push(0);
                }
            }
            2 => {
                while y.a.last() == Some(&0) {
                    y.a.pop();
                }
            }
            3 => y.k = rng.below(31) as u8,
            4 => y.a = related(&mut rng, &x.a, 64, &al),
            5 => y.b = related(&mut rng, &x.b, 32, &al),
            _ => {}
        }
        ev_ord(&mut sh, &x, &y, n);
        n += 1;
    }
    // the ladders (see ladders()) for the plain types: all ordered pairs, each type in rotation
    for fam in ladders(&mut rng) {
        for x in &fam {
            sh.next_unit();
            for y in &fam {
                ev_ord(&mut sh, x, y, n);
                n += 1;
            }
        }
    }
    // dual families
    n += dual_families(&mut sh, &mut rng, if thorough { 12000 } else { 60 });
    println!("STATS {{\"ord\":{{\"events\":{}}}}}", n);
    sh.finish();
}
