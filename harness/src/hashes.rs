//! Hash primitive drivers (C19): RollingHash and PartialFNVHash observed after every prefix,
//! every update form on random splits, and the complete 64 x 256 transition table.
#![allow(deprecated)]
use crate::util::*;
use crate::words::Words;
use ssdeep::internal_hashes::{PartialFNVHash, RollingHash};

fn feed_forms(rng: &mut Rng, data: &[u8]) -> (Vec<(String, u32)>, Vec<(String, u8)>) {
    let mut r: Vec<(String, u32)> = vec![];
    let mut f: Vec<(String, u8)> = vec![];
    {
        let mut a = RollingHash::new();
        a.update(data);
        r.push(("slice".into(), a.value()));
        let mut b = PartialFNVHash::new();
        b.update(data);
        f.push(("slice".into(), b.value()));
    }
    {
        let mut a = RollingHash::new();
        a.update_by_iter(data.iter().copied());
        r.push(("iter".into(), a.value()));
        let mut b = PartialFNVHash::new();
        b.update_by_iter(data.iter().copied());
        f.push(("iter".into(), b.value()));
    }
    {
        let mut a = RollingHash::new();
        let mut b = PartialFNVHash::new();
        for &c in data {
            a.update_by_byte(c);
            b.update_by_byte(c);
        }
        r.push(("byte".into(), a.value()));
        f.push(("byte".into(), b.value()));
    }
    {
        // += forms and a random mix of all forms on a random split
        let mut a = RollingHash::new();
        let mut b = PartialFNVHash::new();
        let mut a2 = RollingHash::default();
        let mut b2 = PartialFNVHash::default();
        let mut pos = 0;
        while pos < data.len() {
            let k = rng.range(1, 9).min(data.len() - pos);
            let chunk = &data[pos..pos + k];
            a += chunk;
            b += chunk;
            match rng.below(5) {
                0 => {
                    a2.update(chunk);
                    b2.update(chunk);
                }
                1 => {
                    a2.update_by_iter(chunk.iter().copied());
                    b2.update_by_iter(chunk.iter().copied());
                }
                2 => {
                    for &c in chunk {
                        a2 += c;
                        b2 += c;
                    }
                }
                3 if k == 4 => {
                    let arr: &[u8; 4] = chunk.try_into().unwrap();
                    a2 += arr;
                    b2 += arr;
                }
                _ => {
                    a2 += chunk;
                    b2 += chunk;
                }
            }
            pos += k;
        }
        r.push(("add_slice".into(), a.value()));
        f.push(("add_slice".into(), b.value()));
        r.push(("mixed".into(), a2.value()));
        f.push(("mixed".into(), b2.value()));
        // cloning mid-way does not disturb
        let a3 = a2;
        let b3 = b2;
        r.push(("copy".into(), a3.value()));
        f.push(("copy".into(), b3.value()));
    }
    (r, f)
}
pub fn ev_hp(sh: &mut Shards, rng: &mut Rng, data: &[u8]) {
    // a panic inside the primitives is data: the event is recorded with `panics` = 1 (the
    // specification requires 0) and whatever had been observed up to that point
    let mut rv = vec![];
    let mut fv = vec![];
    let r = std::panic::catch_unwind(std::panic::AssertUnwindSafe(|| {
        let mut roll = RollingHash::new();
        let mut fnv = PartialFNVHash::new();
        for &c in data {
            roll.update_by_byte(c);
            fnv.update_by_byte(c);
            rv.push(jw32(roll.value()));
            fv.push(fnv.value());
        }
        feed_forms(rng, data)
    }));
    let (panics, (rf, ff)) = match r {
        Ok(x) => (0, x),
        Err(_) => (1, (vec![("slice".to_string(), 0u32)], vec![("slice".to_string(), 0u8)])),
    };
    let rfj: Vec<String> = rf.iter().map(|(k, v)| format!("\"{}\":{}", k, jw32(*v))).collect();
    let ffj: Vec<String> = ff.iter().map(|(k, v)| format!("\"{}\":{}", k, v)).collect();
    sh.emit_w(
        &format!("{{\"ev\":\"hp\",\"panics\":{},\"d\":{},\"roll\":[{}],\"fnv\":{},\"rforms\":{{{}}},\"fforms\":{{{}}}}}", panics, jarr_u8(data), rv.join(","), jarr_u8(&fv), rfj.join(","), ffj.join(",")),
        data.len() as u64 + 1,
    );
}
pub fn drive_hashes(a: &Args, w: &Words, thorough: bool) {
    drive_hashes_scaled(a, w, "hash", if thorough { 60_000_000 } else { 150_000 })
}
pub fn drive_hashes_scaled(a: &Args, w: &Words, prefix: &str, budget: usize) {
    let mut sh = Shards::new(&a.out, prefix, a.shards);
    let mut rng = Rng::new(a.seed ^ 0xf0f0);
    // the complete FNV table: reach all 64 states through the public API, then one step with every byte
    sh.next_unit();
    let mut reach: Vec<Option<PartialFNVHash>> = vec![None; 64];
    let mut queue = vec![PartialFNVHash::new()];
    reach[PartialFNVHash::new().value() as usize] = Some(PartialFNVHash::new());
    while let Some(h) = queue.pop() {
        for c in 0..=255u8 {
            let mut n = h;
            n.update_by_byte(c);
            if reach[n.value() as usize].is_none() {
                reach[n.value() as usize] = Some(n);
                queue.push(n);
            }
        }
    }
    let nstates = reach.iter().filter(|x| x.is_some()).count();
    sh.emit(&format!("{{\"ev\":\"fnvinit\",\"v\":{},\"states\":{}}}", PartialFNVHash::new().value(), nstates));
    for s in 0..64usize {
        if let Some(h) = reach[s] {
            let row: Vec<u8> = (0..=255u8)
                .map(|c| {
                    let mut n = h;
                    n.update_by_byte(c);
                    n.value()
                })
                .collect();
            sh.emit(&format!("{{\"ev\":\"fnvrow\",\"s\":{},\"row\":{}}}", h.value(), jarr_u8(&row)));
        }
    }
    let mut bytes = 0usize;
    while bytes < budget {
        sh.next_unit();
        let len = match rng.below(6) {
            0 => rng.range(0, 16),
            1 => rng.range(0, 4096),
            _ => rng.range(0, 600),
        };
        let class = rng.below(7);
        let data = crate::gen::make_input(&mut rng, w, class, len);
        ev_hp(&mut sh, &mut rng, &data);
        bytes += data.len() + 1;
    }
    // inputs past 2^16 bytes (one per class in rotation; three in the full run): a 16-bit position
    // or index anywhere in the hashes would wrap here and nowhere below
    for i in 0..(if budget > 1_000_000 { 3usize } else { 1 }) {
        sh.next_unit();
        let data = crate::gen::make_input(&mut rng, w, [0u64, 4, 1][i % 3], 65_536 + 700 + 13 * i);
        ev_hp(&mut sh, &mut rng, &data);
        bytes += data.len();
    }
    // ONE slice of 2^32 + 3 bytes through the slice forms (zero bytes except the last seven; the pages
    // are never written, so this costs address space, not memory): a length narrowed to 32 bits
    // anywhere in the slice path shows here.  Only in optimised builds (about 4 s; minutes otherwise).
    if !cfg!(debug_assertions) && prefix == "hash" {
        sh.next_unit();
        let n: usize = (1usize << 32) + 3;
        let r = std::panic::catch_unwind(|| {
            let mut big = vec![0u8; n];
            let tail = [0x11u8, 0x7f, 0x03, 0xe0, 0x55, 0x9a, 0xfe];
            big[n - 7..].copy_from_slice(&tail);
            let mut a = RollingHash::new();
            a.update_by_byte(0xaa);
            a.update(&big);
            let mut b = RollingHash::new();
            b += 0xaau8;
            b += &big[..];
            (tail, a.value(), b.value())
        });
        match r {
            Ok((tail, va, vb)) => sh.emit(&format!(
                "{{\"ev\":\"hpbig\",\"panics\":0,\"n\":{},\"tail\":{},\"rforms\":{{\"slice\":{},\"add_slice\":{}}}}}",
                jsize(n as u64), jarr_u8(&tail), jw32(va), jw32(vb)
            )),
            Err(_) => sh.emit(&format!("{{\"ev\":\"hpbig\",\"panics\":1,\"n\":{},\"tail\":[0,0,0,0,0,0,0],\"rforms\":{{\"slice\":[0,0]}}}}", jsize(n as u64))),
        }
    }
    // windows that stress the 32-bit arithmetic: all 0xff, alternating, words with extreme hashes
    for pat in [vec![255u8; 40], (0..40).map(|i| if i % 2 == 0 { 255 } else { 0 }).collect::<Vec<u8>>(), (0..64).map(|i| (i * 37 % 256) as u8).collect()] {
        sh.next_unit();
        ev_hp(&mut sh, &mut rng, &pat);
    }
    for ws in [&w.maxroll, &w.zeroroll, &w.levels[30], &w.levels[29]] {
        for word in ws.iter() {
            sh.next_unit();
            let mut d = vec![1, 2, 3];
            d.extend_from_slice(word);
            d.extend_from_slice(word);
            ev_hp(&mut sh, &mut rng, &d);
            // the same extreme windows followed by zero bytes, 0xff bytes and a repeat of the first byte
            for tail in [[0u8, 0, 0, 5], [0xff, 0xff, 0, 1], [word[0], 0, word[0], 0]] {
                let mut d2 = vec![9, 8];
                d2.extend_from_slice(word);
                d2.extend_from_slice(&tail);
                d2.extend_from_slice(word);
                d2.push(0);
                ev_hp(&mut sh, &mut rng, &d2);
            }
        }
    }
    println!("STATS {{\"hashes\":{{\"bytes\":{},\"fnv_states\":{}}}}}", bytes, nstates);
    sh.finish();
}

/// Re-execute recorded hash-primitive events.
pub fn replay(inp: &str, out_dir: &str, w: &Words) {
    let mut sh = Shards::new(out_dir, "replay", 1);
    let mut rng = Rng::new(7);
    let text = std::fs::read_to_string(inp).unwrap();
    for line in text.lines().filter(|l| !l.trim().is_empty()) {
        let e: serde_json::Value = serde_json::from_str(line).unwrap();
        match e["ev"].as_str().unwrap_or("") {
            "hp" => {
                let d: Vec<u8> = e["d"].as_array().map(|a| a.iter().map(|x| x.as_u64().unwrap_or(0) as u8).collect()).unwrap_or_default();
                ev_hp(&mut sh, &mut rng, &d);
            }
            "fnvrow" | "fnvinit" => {
                let a = Args { seed: 1, tier: "quick".into(), out: format!("{}/table", out_dir), shards: 1, rest: vec![] };
                drive_hashes(&a, w, false);
                break;
            }
            _ => {}
        }
    }
    sh.finish();
}
