"""./check selftest — demonstrations that the specification is bound to the code and is not vacuous.

(a) field corruption: for every event kind of every trace family, every recorded leaf field of
    one accepted event is corrupted in turn; TLC must reject the trace at that event.  Fields
    whose corruption is accepted are 'unconstrained'; they must all be on the allow list below
    (inputs that do not influence the judged outputs, free-form annotations).
(b) dropped event: removing a state-changing event from a generator history must be rejected.
(c) specification negative controls: each is the model-level image of a plausible code edit;
    the corresponding scaled model-checking run must FAIL.
Exit 0 = all demonstrations behaved; exit 2 otherwise (this is a tool check, never a verdict
about the code)."""
import copy, glob, json, os, re, shutil, subprocess, sys, tempfile
from vlib import *

# recorded fields the specification deliberately does not constrain
ALLOW_UNCONSTRAINED = {
    # generator family: how a call was made / annotations
    "upd.f", "realzeros.f", "streamzeros.mr", "fix.usz", "hashstream.reads", "hashstream.mr", "hashstream.rs", "stream.g", "file.g",
    # parse error kind / offset: the property names the offending PART only (reported as drift, see DESIGN)
    "parse.r.*.kind", "parse.r.*.off", "parse.r.*.msg", "cmpstr.r.side", "cmpstr.r.origin", "cmpstr.r.kind", "cmpstr.r.off", "cmpstr.r.msg",
    # likewise drift-only: block size relation between objects, array-level observers, error texts
    "ord.rel", "ord.near", "ord.len1", "ord.len2", "ord.arr1", "ord.arr2", "errs.gen.*", "errs.op.*",
    # fields only meaningful in the other branch of an outcome
    "parse.r.*.k", "parse.r.*.a", "parse.r.*.b", "parse.r.*.valid", "parse.r.*.txt", "parse.r.*.ntxt", "parse.r.*.nvalid", "parse.r.*.origin",
    "fmt.T", "fmt.bufs.*.out", "fmt.bufs.*.untouched",
    "norm.long", "dual.long", "dual.failed", "dual.routes.*.rawmut_valid",
    "ord.T", "ord.hasheq", "ord.dhasheq", "sort.T", "dualord.heq", "dualord.heq.*",
    "streamzeros.n", "streamzeros.r.id", "streamzeros.r.kind",   # n is only constrained when no failure is injected; id / kind only when one is
    "op.h", "op.t", "op.d", "op.src", "op.obs.isn",
    "ctor.log", "ctor.bs", "ctor.l1", "ctor.l2", "ctor.a", "ctor.b", "ctor.obs.*", "ctor.uobs.*",
    "tinit.via", "tobs.t", "win.nth.*.n", "win.nth.*.n2", "pctor.len_after", "pctor.bad_at", "pctor.len", "pobs.p", "tinit.t", "tfrom.t", "tnew.t", "pinit.p", "pnew.p", "pclear.p",
    "bsvalid.swept", "cap.border", "fnvinit.states",
    "stream.n", "stream.bl", "file.what", "file.meta", "file.delivered",
    "fin.probe.*", "ctor.fn", "ctor.T", "cap.n", "stream.r.id", "stream.r.kind", "file.r.id", "file.r.kind",
    # INPUT fields: the recorded outputs may by coincidence also be right for the corrupted input
    # (e.g. changing one symbol of a string that shares no 7-gram anyway)
    "fix.n", "ss.n", "sub.a", "sub.b", "ed.a", "ed.b", "ss.a", "ss.b", "pinit.s", "pobs.equiv.*.s", "fmt.bufs.*.n",
    "tinit.h.*", "tfrom.h.*", "tobs.cmp.*.h.*", "tobs.equiv.*.h.*", "stream.script.*", "cmp.A.*", "cmp.B.*",
    "norm.h.*", "dual.h.*", "ord.A.*", "ord.B.*", "hp.d", "parse.t", "op.h.*", "win.A.*", "dualord.fam.*",
    "clone.to", "clone.g", "new.g", "reset.g", "zeros.g", "upd.g", "fin.g", "hashbuf.g", "hashstream.g", "same.g", "same.h",
}


def _leaf_paths(x, prefix=()):
    """leaf = bool / int / str, or a list of scalars (treated as one leaf)"""
    if isinstance(x, dict):
        for k, v in x.items():
            if k in ("ev", "unit"):
                continue
            yield from _leaf_paths(v, prefix + (k,))
    elif isinstance(x, list):
        if all(not isinstance(v, (dict, list)) for v in x):
            yield prefix
        else:
            # first and last element only (lists of records / lists of lists)
            idxs = sorted(set([0, len(x) - 1])) if x else []
            for i in idxs:
                yield from _leaf_paths(x[i], prefix + (i,))
    else:
        yield prefix


def _get(x, path):
    for p in path:
        x = x[p]
    return x


def _set(x, path, v):
    for p in path[:-1]:
        x = x[p]
    x[path[-1]] = v


def _corrupt(v):
    if isinstance(v, bool):
        return not v
    if isinstance(v, int):
        return v + 1
    if isinstance(v, str):
        return v + "x"
    if isinstance(v, list):
        if not v:
            return [1]
        if isinstance(v[-1], bool):
            return v[:-1] + [not v[-1]]
        if isinstance(v[-1], int):
            return v[:-1] + [(v[-1] + 1) % 64 if v[-1] < 64 else v[-1] + 1]
        return v[:-1]
    return v


def _pattern(ev, path):
    parts = [ev]
    for p in path:
        parts.append("*" if isinstance(p, int) else p)
    full = ".".join(parts)
    # generalise record keys that are route / type names: try progressively wildcarded forms
    cands = [full]
    for i in range(1, len(parts)):
        q = parts[:]
        q[i] = "*"
        cands.append(".".join(q))
        for j in range(i + 1, len(parts)):
            q2 = q[:]
            q2[j] = "*"
            cands.append(".".join(q2))
    cands.append(".".join(parts[:2]) + ".*")
    cands.append(".".join(parts[:3]) + ".*")
    cands.append(".".join(parts[:4]) + ".*")
    if len(parts) >= 4:
        cands.append(".".join([parts[0], parts[1], "*", parts[3], "*"]))
    return full, cands


def field_corruption(binp, work):
    out = os.path.join(work, "c14")
    run_harness(binp, ["c14", "--seed", "7", "--tier", "quick", "--out", out, "--shards", "1"])
    extra = os.path.join(work, "extra")
    run_harness(binp, ["gen", "stream", "--seed", "7", "--tier", "quick", "--out", extra, "--shards", "1"])
    run_harness(binp, ["cmp", "reuse", "--seed", "7", "--tier", "quick", "--out", extra, "--shards", "1"])
    run_harness(binp, ["cmp", "tables", "--seed", "7", "--tier", "quick", "--out", extra, "--shards", "1"])
    run_harness(binp, ["obj", "ord", "--seed", "7", "--tier", "quick", "--out", extra, "--shards", "1"])
    fam = {
        "gen": ("TraceGen.tla", "TraceGen.cfg", [os.path.join(out, "c14gen_00.ndjson"), os.path.join(extra, "gen_stream_00.ndjson")]),
        "cmp": ("TraceCmp.tla", "TraceCmp.cfg", [os.path.join(out, "c14cmp_00.ndjson"), os.path.join(extra, "cmp_reuse_00.ndjson"), os.path.join(extra, "cmp_tables_00.ndjson")]),
        "obj": ("TraceObj.tla", "TraceObj.cfg", [os.path.join(out, "c14obj_00.ndjson"), os.path.join(extra, "obj_ord_00.ndjson")]),
        "hash": ("TraceHash.tla", "TraceHash.cfg", [os.path.join(out, "c14hash_00.ndjson")]),
    }
    jobs = {}       # family -> list of (file, label, expect_reject_at)
    for f, (mod, cfg, files) in fam.items():
        seen = set()
        n = 0
        for path in files:
            evs = read_events(path)
            # units: split at "unit" markers; keep units small
            starts = [i for i, e in enumerate(evs) if e.get("unit")] + [len(evs)]
            for ui in range(len(starts) - 1):
                unit = evs[starts[ui]:starts[ui + 1]]
                nbytes = sum(len(e.get("d", [])) for e in unit if isinstance(e.get("d"), list))
                if nbytes > 3000 or len(unit) > 400:
                    continue
                for ei, e in enumerate(unit):
                    kind = e["ev"]
                    if kind in seen:
                        continue
                    seen.add(kind)
                    for lp in _leaf_paths(e):
                        full, cands = _pattern(kind, lp)
                        # keep the events that observe the effect of a state-changing event
                        tail_end = ei + 1
                        while tail_end < len(unit) and tail_end < ei + 6:
                            tail_end += 1
                            if unit[tail_end - 1]["ev"] in ("fin", "tobs", "pobs"):
                                break
                        u2 = copy.deepcopy(unit[:tail_end])
                        old = _get(u2[ei], lp)
                        new = _corrupt(old)
                        if new == old:
                            continue
                        _set(u2[ei], lp, new)
                        p = os.path.join(work, "cor_%s_%d.ndjson" % (f, n))
                        n += 1
                        with open(p, "w") as fh:
                            for x in u2:
                                fh.write(json.dumps(x) + "\n")
                        jobs.setdefault(f, []).append((p, full, cands, ei + 1))
    bad = []
    unconstrained = []
    total = 0
    for f, lst in jobs.items():
        mod, cfg, _ = fam[f]
        res = run_tv(mod, cfg, [p for p, _, _, _ in lst], timeout=600, tolerate_tool_errors=True)
        byfile = {r["file"]: r for r in res}
        for p, full, cands, at in lst:
            r = byfile.get(p)
            total += 1
            if r is None:
                continue
            if r["accepted"]:
                if not any(c in ALLOW_UNCONSTRAINED for c in cands):
                    unconstrained.append(full)
            elif r.get("tool_error") and r["rejected_at"] is None:
                # a corrupted value of the wrong shape may make TLC raise an evaluation error: still a rejection
                pass
            elif r["rejected_at"] < at:
                bad.append("%s: rejected at %s, corrupted event was %d" % (full, r["rejected_at"], at))
    log("[selftest] field corruption: %d corrupted traces; %d accepted outside the allow list; %d rejected at the wrong event" % (total, len(unconstrained), len(bad)))
    for u in sorted(set(unconstrained)):
        log("   UNCONSTRAINED (not allow-listed): " + u)
    for b in bad[:20]:
        log("   WRONG-PLACE: " + b)
    return not unconstrained and not bad, total


def dropped_event(binp, work):
    src = os.path.join(work, "c14", "c14gen_00.ndjson")
    evs = read_events(src)
    starts = [i for i, e in enumerate(evs) if e.get("unit")] + [len(evs)]
    ok = True
    done = 0
    files = []
    for ui in range(len(starts) - 1):
        unit = evs[starts[ui]:starts[ui + 1]]
        upd = [i for i, e in enumerate(unit) if e["ev"] == "upd" and len(e["d"]) > 0]
        fins = [i for i, e in enumerate(unit) if e["ev"] == "fin"]
        if not upd or not fins or fins[-1] < upd[0] or sum(len(e.get("d", [])) for e in unit if e["ev"] == "upd") > 3000:
            continue
        u2 = [e for i, e in enumerate(unit) if i != upd[0]]
        if u2 and not u2[0].get("unit"):
            u2[0] = dict(u2[0], unit=1)
        p = os.path.join(work, "drop_%d.ndjson" % done)
        with open(p, "w") as fh:
            for x in u2:
                fh.write(json.dumps(x) + "\n")
        files.append(p)
        done += 1
        if done >= 4:
            break
    res = run_tv("TraceGen.tla", "TraceGen.cfg", files, timeout=600)
    for r in res:
        if r["accepted"]:
            ok = False
            log("   DROPPED EVENT ACCEPTED: " + r["file"])
    log("[selftest] dropped update event: %d histories, all rejected: %s" % (len(files), ok))
    return ok and len(files) > 0


NEG = [
    # (label, module to edit, (old, new), MC module, MC cfg)
    ("elimination without the 'next block hash has HALF pieces' test", "Generator.tla",
     ("IF s2.en - s2.st >= 2 /\\ SzLT(s2.eb, szr) /\\ s2.cx[i + 1].idx >= HALF", "IF s2.en - s2.st >= 2 /\\ SzLT(s2.eb, szr)"), "MCGenerator.tla", "MCGenerator_quick.cfg"),
    ("reset() forgets roll_mask", "Generator.tla", ("!.lim = NUM - 1, !.mask = 0, !.roll = RollInit, !.isl = FALSE", "!.lim = NUM - 1, !.roll = RollInit, !.isl = FALSE"), "MCGenerator.tla", "MCGenerator_reset.cfg"),
    ("fork does not copy the parent's FNV states", "Generator.tla", ("!.hf = s.cx[i].hf, !.hh = s.cx[i].hh],", "!.hh = s.cx[i].hh],"), "MCGenerator.tla", "MCGenerator_quick.cfg"),
    ("context reset does not clear the last digest cell", "Generator.tla", ("IF j = LEN THEN NIL\n", "IF FALSE THEN NIL\n"), "MCGenerator.tla", "MCGenerator_reset.cfg"),
    ("fork limit one too low", "Generator.tla", ("ELSE IF s.en > s.lim", "ELSE IF s.en >= s.lim"), "MCGenerator.tla", "MCGenerator_hint.cfg"),
    ("slice update adds its length twice", "MCGenerator.tla", ("/\\ impl' = IStep(impl, e) /\\ ref' = RStep(ref, e) /\\ pending' = pending - 1", "/\\ impl' = IStep([impl EXCEPT !.size = SzAdd(@, SzOf(1))], e) /\\ ref' = RStep(ref, e) /\\ pending' = pending - 1"), "MCGenerator.tla", "MCGenerator_quick.cfg"),
    ("reference machine resets the half hash one piece late (L1 vs L0)", "CtphRef.tla", ("hh   |-> IF cx.n + 1 < HALF THEN HInit ELSE hh1,", "hh   |-> IF cx.n < HALF THEN HInit ELSE hh1,"), "MCRef.tla", "MCRef_n2.cfg"),
    ("scan skips one position too many", "BitParallel.tla", ("ELSE ScanOuter(pa, b, res.l - WIN)", "ELSE IF res.l - WIN - 1 < 0 THEN FALSE ELSE ScanOuter(pa, b, res.l - WIN - 1)"), "MCBitParallel.tla", "MCBitParallel_w6a2.cfg"),
    ("LLCS recurrence uses AND instead of OR", "BitParallel.tla", ("((v + p) % WM) | (v - p)", "((v + p) % WM) & (v - p)"), "MCBitParallel.tla", "MCBitParallel_w6a2.cfg"),
    ("re-initialisation without clearing the masks", "MCTarget.tla", ("pa' = PAOrInto(PAClear, s)", "pa' = PAOrInto(pa, s)"), "MCTarget.tla", "MCTarget.cfg"),
    ("RLE remainder symbol one short", "Dual.tla", ("len |-> (e % RUNMAX) + 1]", "len |-> (e % RUNMAX)]"), "MCDual.tla", "MCDual_c8a2.cfg"),
    ("near-lt comparison capped with the wrong block size", "Compare.tla", ("\"NearLt\" -> ScoreStrings(A.b, B.a, B.k)", "\"NearLt\" -> ScoreStrings(A.b, B.a, A.k)"), "MCCompareLaws.tla", "MCCompareLaws_hashes.cfg"),
    ("padded-array comparison ignores the length", "Order.tla", ("ELSE IF Len(A.a) # Len(B.a) THEN Sign(Len(A.a) - Len(B.a))", "ELSE IF FALSE THEN 0"), "MCOrder.tla", "MCOrder.cfg"),
    ("reader loop feeds one byte too many", "MCStream.tla", ("/\\ fed' = fed + got ", "/\\ fed' = fed + got + (IF got = BUF THEN 1 ELSE 0) "), "MCStream.tla", "MCStream.cfg"),
    ("incremental rolling hash forgets to subtract the outgoing byte", "Hashes.tla", ("h1a == WSub(WAdd(s.h1, WOf(c)), WOf(s.win[s.idx + 1]))", "h1a == WAdd(s.h1, WOf(c))"), "MCHashes.tla", "MCHashes_scaled.cfg"),
    ("dual parser without the raw length accounting (finding F1)", "ParserMachine.tla", ("IF kind.dual /\\ Len(r2.out) + r2.extra > cap2 THEN", "IF FALSE THEN"), "MCParser.tla", "MCParser_quick.cfg"),
    ("capacity check before run collapsing (seed C04)", "ParserMachine.tla", ("IF normalize /\\ curr = st.prev /\\ st.seq + 1 >= MAXRUN\n       THEN [st EXCEPT !.seq = MAXRUN,", "IF normalize /\\ curr = st.prev /\\ st.seq + 1 >= MAXRUN /\\ (strict \\/ Len(st.out) < n)\n       THEN [st EXCEPT !.seq = MAXRUN,"), "MCParser.tla", "MCParser_quick.cfg"),
    ("into_mut_long_form without clearing the second half", "Objects.tla", ("ELSE 0],                     \\* blockhash2[HALF..FULL].fill(0)", "ELSE dst.arr[i]],"), "MCObjects.tla", "MCObjects.cfg"),
    ("dual compression leaves stale RLE symbols (seeds C07 / C11 / C15)", "Objects.tla", ("ELSE 0]]                          \\* rle_block_out[rle_offset..].fill(TERMINATOR)", "ELSE IF i = Len(c.rle) + 1 THEN 0 ELSE dst.rle[i]]]"), "MCObjects.tla", "MCObjects.cfg"),
    ("in-place normalisation without clearing the freed tail", "Objects.tla", ("IF x > len /\\ x <= old THEN 0 ELSE arr[x]]", "arr[x]]"), "MCObjects.tla", "MCObjects.cfg"),
    ("formatter forgets the second colon (round trip)", "Text.tla", ("\\o Enc(h.a) \\o <<COLON>> \\o Enc(h.b)", "\\o Enc(h.a) \\o Enc(h.b)"), "MCText.tla", "MCText.cfg"),
]


def negative_controls(work):
    ok = True
    nrun = 0
    for label, mod, (old, new), mcmod, mccfg in NEG:
        d = os.path.join(work, "neg_%d" % nrun)
        nrun += 1
        os.makedirs(d)
        for f in glob.glob(os.path.join(SPEC, "*.tla")) + glob.glob(os.path.join(SPEC, "*.cfg")):
            shutil.copy(f, d)
        p = os.path.join(d, mod)
        s = open(p).read()
        if s.count(old) != 1:
            log("   NEGATIVE CONTROL NOT APPLICABLE (pattern count %d): %s" % (s.count(old), label))
            ok = False
            continue
        open(p, "w").write(s.replace(old, new))
        cmd = ["tlc", "-workers", str(MC_WORKERS), "-metadir", os.path.join(d, "md"), "-cleanup", "-noGenerateSpecTE", "-config", mccfg, mcmod]
        env = dict(os.environ, JAVA_TOOL_OPTIONS="-Xss1g -Xmx8g")
        try:
            r = subprocess.run(cmd, cwd=d, env=env, stdout=subprocess.PIPE, stderr=subprocess.STDOUT, text=True, timeout=900)
            out = r.stdout
        except subprocess.TimeoutExpired:
            out = "timeout"
        failed = ("is violated" in out) or ("Assert" in out and "Error" in out) or ("evaluated to FALSE" in out) or ("Error: " in out and "No error has been found" not in out)
        if "No error has been found" in out or not failed:
            ok = False
            log("   NEGATIVE CONTROL NOT CAUGHT: " + label)
        else:
            log("   caught: " + label)
        shutil.rmtree(d, ignore_errors=True)
    log("[selftest] specification negative controls: %d run, all caught: %s" % (nrun, ok))
    return ok


def main(tier):
    work = tempfile.mkdtemp(prefix="verif_selftest_")
    try:
        binp = build_harness()
        ok1, total = field_corruption(binp, work)
        ok2 = dropped_event(binp, work)
        ok3 = negative_controls(work)
    finally:
        shutil.rmtree(work, ignore_errors=True)
    if ok1 and ok2 and ok3:
        log("selftest ok")
        return 0
    log("selftest FAILED")
    return 2
